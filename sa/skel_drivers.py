"""SKEL drivers: enumerate structural parameter boxes for the functions named in DESIGN section 4 (bounded, labelled [SKEL])."""
import itertools
from .skel import (explore, SK, Py, Bag, Tok, DEF, Ord, Mono, Violation, Unsupported, Tally, run_case, pts, floats, shape_ok, STD_ABSTRACTED, footprint, Raised)
from .model import AnalysisError


def span_supply(spans):
    it = itertools.cycle(spans)
    return Py(lambda sk, node, *a, **k: next(it), 'span')


def evaluator(cls, spans):
    return Bag(('evaluators', cls), _span_func=span_supply(spans), _name=cls)


def datadict(pdim, degs, sizes, dim, rational=False, samples=3):
    hd = dim + (1 if rational else 0)
    total = 1
    for s in sizes:
        total *= s
    return dict(degree=tuple(degs), knotvector=tuple(floats(n + p + 1) for p, n in zip(degs, sizes)), control_points=tuple(pts(total, hd, labelled=True)),
                size=tuple(sizes), dimension=dim, rational=rational, pdimension=pdim, sample_size=tuple([samples] * pdim), precision=18,
                delta=tuple([0.1] * pdim), type='spline')


def _run(m, fkey, args, kw, post=None, extra=None):
    return run_case(m, fkey, args, kw, abstracted=extra, post=post)


def unsupported_guard(f):
    def g(*a, **k):
        try:
            return f(*a, **k)
        except Unsupported as ex:
            return ('UNSUPPORTED', str(ex))
    return g


run1 = unsupported_guard(_run)


def finish(t, site):
    uns = [k for k in t.bad if k[0] == 'UNSUPPORTED']
    if uns:
        raise AnalysisError('%s: interpreter met an unsupported construct: %s' % (t.key, uns[0][1]))
    t.finish(site)


# ====================================================================================== C01
def c01(m, run):
    big = run.tier == 'thorough'
    dmax = 5 if big else 3
    # A3.1 curve points (plain and rational)
    for cls, rat in (('CurveEvaluator', False), ('CurveEvaluatorRational', True)):
        t = Tally(run, 'SK1.index-safety', 'evaluators.%s.evaluate :: A3.1 skeleton' % cls, 'degree 1..%d x size p+1..p+%d x every span' % (dmax, 3))
        for p in range(1, dmax + 1):
            for n in range(p + 1, p + 4):
                dd = datadict(1, (p,), (n,), 2, rat)

                def post(sk, out, rat=rat, p=p, n=n):
                    if len(out) != 3 or not all(shape_ok(q, 2) for q in out):
                        raise Violation('SK3', 'evaluated points are not 3 defined 2-D points: %r' % (out[:1],))
                    spans = list(range(p, n))
                    for k, q in enumerate(out):
                        sp = spans[k % len(spans)]
                        got, want = footprint(q), frozenset(range(sp - p, sp + 1))
                        if got is not None and got != want:
                            raise Violation('SK5', 'the point evaluated in span %d is computed from the control points %s, the active ones are %s' % (sp, sorted(got), sorted(want)))
                t.add((p, n), run1(m, 'evaluators.%s.evaluate' % cls, [evaluator(cls, range(p, n)), dd], {}, post))
        finish(t, 'geomdl/evaluators.py')
    # A3.5 surface points
    for cls, rat in (('SurfaceEvaluator', False), ('SurfaceEvaluatorRational', True)):
        t = Tally(run, 'SK1.index-safety', 'evaluators.%s.evaluate :: A3.5 skeleton' % cls, 'degrees 1..%d^2 x non-square sizes x spans' % min(dmax, 3))
        for p, q in itertools.product(range(1, min(dmax, 3) + 1), repeat=2):
            for n, k in ((p + 1, q + 3), (p + 3, q + 1)):
                dd = datadict(2, (p, q), (n, k), 3, rat, samples=2)
                spans = itertools.chain(range(p, n), range(q, k))

                def post(sk, out):
                    if len(out) != 4 or not all(shape_ok(x, 3) for x in out):
                        raise Violation('SK3', 'evaluated grid is not 2x2 defined 3-D points')
                # spans are requested per direction: u samples first, then v samples
                sup = [p + (i % (n - p)) for i in range(2)] + [q + (i % (k - q)) for i in range(2)]
                # exercise the extreme spans too
                for su, sv in ((p, q), (n - 1, k - 1)):
                    def post2(sk, out, su=su, sv=sv, p=p, q=q, k=k, post=post):
                        post(sk, out)
                        want = frozenset(v + k * u for u in range(su - p, su + 1) for v in range(sv - q, sv + 1))
                        for pt in out:
                            got = footprint(pt)
                            if got is not None and got != want:
                                raise Violation('SK5', 'a point of span (%d, %d) is computed from the flat control point indices %s, the active block is %s'
                                                % (su, sv, sorted(got)[:12], sorted(want)[:12]))
                    t.add((p, q, n, k, su, sv), run1(m, 'evaluators.%s.evaluate' % cls, [evaluator(cls, [su, su, sv, sv]), dd], {}, post2))
        finish(t, 'geomdl/evaluators.py')
    # volume
    t = Tally(run, 'SK1.index-safety', 'evaluators.VolumeEvaluator.evaluate :: A3.5 (3-D) skeleton', 'degrees 1..2^3 x pairwise different sizes x extreme spans')
    for p, q, r in itertools.product(range(1, 3), repeat=3):
        n, k, l = p + 1, q + 2, r + 3
        dd = datadict(3, (p, q, r), (n, k, l), 3, False, samples=2)

        def post(sk, out):
            if len(out) != 8 or not all(shape_ok(x, 3) for x in out):
                raise Violation('SK3', 'evaluated grid is not 2x2x2 defined points')
        for su, sv, sw in ((p, q, r), (n - 1, k - 1, l - 1)):
            def post3(sk, out, su=su, sv=sv, sw=sw, p=p, q=q, r=r, n=n, k=k, post=post):
                post(sk, out)
                want = frozenset(v + k * (u + n * w) for u in range(su - p, su + 1) for v in range(sv - q, sv + 1) for w in range(sw - r, sw + 1))
                for pt in out:
                    got = footprint(pt)
                    if got is not None and got != want:
                        raise Violation('SK5', 'a point of span (%d, %d, %d) is computed from the flat indices %s, the active block is %s'
                                        % (su, sv, sw, sorted(got)[:12], sorted(want)[:12]))
            t.add((p, q, r, su, sv, sw), run1(m, 'evaluators.VolumeEvaluator.evaluate', [evaluator('VolumeEvaluator', [su, su, sv, sv, sw, sw]), dd], {}, post3))
    finish(t, 'geomdl/evaluators.py')


# ====================================================================================== C02
def c02(m, run):
    big = run.tier == 'thorough'
    dmax = 4 if big else 3
    for cls, rat in (('CurveEvaluator', False), ('CurveEvaluator2', False), ('CurveEvaluatorRational', True)):
        t = Tally(run, 'SK2.no-placeholder-consumed', 'evaluators.%s.derivatives' % cls, 'degree 1..%d x order 0..degree+2 x every span' % dmax)
        for p in range(1, dmax + 1):
            n = p + 3
            for order in range(0, p + 3):
                for span in range(p, n):
                    dd = datadict(1, (p,), (n,), 2, rat)

                    def post(sk, out, order=order, rat=rat, p=p):
                        if len(out) != order + 1:
                            raise Violation('SK3', 'derivative table has %d rows for order %d' % (len(out), order))
                        for row in out:
                            if not (isinstance(row, list) and len(row) == 2 and all(isinstance(c, Tok) and c.kind in ('DEF', 'PH0') for c in row)):
                                raise Violation('SK3', 'derivative row is not a 2-D vector: %r' % (row,))
                        for k_ in range(order + 1):
                            if (rat or k_ <= p) and (any(c.kind != 'DEF' for c in out[k_]) or not footprint(out[k_])):
                                raise Violation('SK3', 'derivative C^(%d) (degree %d, order %d) is left at its initial fill: it is never computed from the control points' % (k_, p, order))
                    t.add((p, order, span), run1(m, 'evaluators.%s.derivatives' % cls, [evaluator(cls, [span]), dd, DEF()], {'deriv_order': order}, post))
        finish(t, 'geomdl/evaluators.py')
    for cls, rat in (('SurfaceEvaluator', False), ('SurfaceEvaluator2', False), ('SurfaceEvaluatorRational', True)):
        t = Tally(run, 'SK2.no-placeholder-consumed', 'evaluators.%s.derivatives' % cls,
                  'degrees (p, q) in 1..%d^2 x order 0..max(p, q)+2 x extreme span pairs' % min(dmax, 3))
        for p, q in itertools.product(range(1, min(dmax, 3) + 1), repeat=2):
            n, k = p + 2, q + 3
            for order in range(0, max(p, q) + 3):
                for su, sv in ((p, q), (n - 1, k - 1)):
                    dd = datadict(2, (p, q), (n, k), 3, rat)

                    def post(sk, out, order=order, p=p, q=q, rat=rat):
                        if len(out) != order + 1 or any(len(r) != order + 1 for r in out):
                            raise Violation('SK3', 'derivative table is not (order+1) x (order+1)')
                        for r in out:
                            for cell in r:
                                if not (isinstance(cell, list) and len(cell) == 3 and all(isinstance(c, Tok) and c.kind in ('DEF', 'PH0') for c in cell)):
                                    raise Violation('SK3', 'derivative cell is not a 3-D vector: %r' % (cell,))
                        # every derivative S^(k,l) with k + l <= order that does not vanish identically (k <= p, l <= q for a polynomial
                        # surface; all of them for a rational one) is computed from the control points, not left at its initial fill
                        for k_ in range(order + 1):
                            for l_ in range(order + 1 - k_):
                                if rat or (k_ <= p and l_ <= q):
                                    cell = out[k_][l_]
                                    if any(c.kind != 'DEF' for c in cell) or not footprint(cell):
                                        raise Violation('SK3', 'derivative S^(%d,%d) (degrees %d, %d, order %d) is left at its initial fill: it is never computed from the control points'
                                                        % (k_, l_, p, q, order))
                    t.add((p, q, order, su, sv), run1(m, 'evaluators.%s.derivatives' % cls, [evaluator(cls, [su, sv]), dd, (DEF(), DEF())], {'deriv_order': order}, post))
        finish(t, 'geomdl/evaluators.py')


# ====================================================================================== C03
def c03(m, run):
    dmax = 7 if run.tier == 'thorough' else 4
    for fname, orders in (('basis_function', None), ('basis_function_all', None), ('basis_function_ders', 'all')):
        t = Tally(run, 'SK1.index-safety', 'helpers.%s' % fname,
                  'degree 1..%d x every span%s' % (dmax, ' x order 0..degree+2 (the property quantifies over all derivative orders)' if orders else ''))
        for p in range(1, dmax + 1):
            n = p + 3
            kv = floats(n + p + 1)
            for span in range(p, n):
                if orders:
                    for order in range(0, p + 3):
                        def post(sk, out, order=order, p=p):
                            if len(out) != order + 1:
                                raise Violation('SK3', 'derivative table has %d rows for order %d: the k-th derivatives, k <= order, are read as rows 0..order (zero rows above the degree)' % (len(out), order))
                            for k, row in enumerate(out):
                                if not (isinstance(row, list) and len(row) == p + 1 and all(isinstance(c, Tok) and c.kind in ('DEF', 'PH0') for c in row)):
                                    raise Violation('SK3', 'row %d of the derivative table is not %d defined values' % (k, p + 1))
                        t.add((p, span, order), run1(m, 'helpers.' + fname, [p, kv, span, DEF(), order], {}, post))
                else:
                    t.add((p, span), run1(m, 'helpers.' + fname, [p, kv, span, DEF()], {}))
        finish(t, 'geomdl/helpers.py')


# ====================================================================================== C04
def c04(m, run):
    dmax = 5 if run.tier == 'thorough' else 3
    for lab in ('rows of points (curve / surface)', 'slabs of points (volume)'):
        t = Tally(run, 'SK3.cells-defined', 'helpers.knot_insertion :: %s' % lab,
                  'degree 1..%d x net degree+1..degree+3 x every span, multiplicity and admissible count' % dmax)
        for p in range(1, dmax + 1):
            for n in range(p + 1, p + 4):
                kv = floats(n + p + 1)
                for k in range(p, n):
                    for s in range(0, p):
                        if k - s < p - 1 and s > 0:
                            continue
                        for num in range(1, p - s + 1):
                            rows = pts(n, 3) if lab.startswith('rows') else [pts(4, 3) for _ in range(n)]

                            def post(sk, out, n=n, num=num, lab=lab):
                                if len(out) != n + num:
                                    raise Violation('SK3', 'result has %d cells, expected %d' % (len(out), n + num))
                                for i, c in enumerate(out):
                                    ok = shape_ok(c, 3) if lab.startswith('rows') else (isinstance(c, list) and len(c) == 4 and all(shape_ok(x, 3) for x in c))
                                    if not ok:
                                        raise Violation('SK3', 'output cell %d is not a defined point (placeholder or wrong shape): %r' % (i, c if not isinstance(c, list) or len(c) < 3 else '...'))
                            t.add((p, n, k, s, num), run1(m, 'helpers.knot_insertion', [p, kv, rows, DEF()], {'num': num, 's': s, 'span': k}, post))
        finish(t, 'geomdl/helpers.py in helpers.knot_insertion')
    t = Tally(run, 'SK3.cells-defined', 'helpers.knot_insertion_kv', 'degree 1..%d x span x count' % dmax)
    for p in range(1, dmax + 1):
        n = p + 3
        kv = floats(n + p + 1)
        for k in range(p, n):
            for num in range(1, p + 1):
                def post(sk, out, L=len(kv), num=num):
                    if len(out) != L + num or not all(isinstance(x, Tok) and x.kind == 'DEF' for x in out):
                        raise Violation('SK3', 'knot vector has %d entries (expected %d) or an unassigned slot' % (len(out), L + num))
                t.add((p, k, num), run1(m, 'helpers.knot_insertion_kv', [kv, DEF(), k, num], {}, post))
    finish(t, 'geomdl/helpers.py in helpers.knot_insertion_kv')


# ====================================================================================== C11
def c11(m, run):
    t = Tally(run, 'LY4.knot-vector-length', 'fitting.compute_knot_vector', 'degree 1..4 x points degree+1..degree+5')
    for p in range(1, 5):
        for npts in range(p + 1, p + 6):
            def post(sk, out, p=p, npts=npts):
                if len(out) != npts + p + 1 or not all(isinstance(x, Tok) or isinstance(x, float) for x in out):
                    raise Violation('SK3', 'knot vector has %d entries, expected %d' % (len(out), npts + p + 1))
            t.add((p, npts), run1(m, 'fitting.compute_knot_vector', [p, npts, floats(npts)], {}, post))
    finish(t, 'geomdl/fitting.py')
    t = Tally(run, 'LY4.knot-vector-length', 'fitting.compute_knot_vector2', 'degree 1..4 x points x control points degree+1..points-1')
    for p in range(1, 5):
        for npts in range(p + 2, p + 7):
            for nc in range(p + 1, npts):
                def post(sk, out, p=p, nc=nc):
                    if len(out) != nc + p + 1:
                        raise Violation('SK3', 'knot vector has %d entries, expected %d' % (len(out), nc + p + 1))
                t.add((p, npts, nc), run1(m, 'fitting.compute_knot_vector2', [p, npts, nc, floats(npts)], {}, post))
    finish(t, 'geomdl/fitting.py')


# ====================================================================================== C15
def c15(m, run):
    smax = 40 if run.tier == 'thorough' else 13

    cells = []

    def tslfunc(sk, node, v1, v2, v3, v4, vidx, tidx, trims, targs):
        cells.append((v1, v2, v3, v4))
        t1, t2 = Bag('Triangle', data=[v1._a['id'], v2._a['id'], v3._a['id']]), Bag('Triangle', data=[v1._a['id'], v3._a['id'], v4._a['id']])
        return [], [t1, t2]

    def mk(cls):
        def f(sk, node, *a, **k):
            b = Bag(cls, id=k.get('id', 0), data=list(a) if a else [Tok('PH0')] * 3, uv=[Tok('PH0')] * 2, vertices=[])
            return b
        return f

    def lab(v):
        f = footprint(v._a['data']) if isinstance(v._a.get('data'), (list, tuple)) else None
        return next(iter(f)) if f and len(f) == 1 else None
    extra = {('class', ('elements', 'Vertex')): mk('Vertex'), ('class', ('elements', 'Triangle')): mk('Triangle'), ('class', ('elements', 'Quad')): mk('Quad')}
    t = Tally(run, 'SK1.index-safety', '_tessellate.make_triangle_mesh', 'sample sizes 2..%d (square and non-square) x every spacing dividing size-1' % smax)
    for size in range(2, smax + 1):
        for sp in [d for d in range(1, size) if (size - 1) % d == 0]:
            for su, sv in ((size, size), (size, 2 * (size - 1) + 1 if (2 * (size - 1)) % sp == 0 else size)):
                def post(sk, out, su=su, sv=sv, sp=sp):
                    verts, tris = out
                    nu, nv = len(range(0, su, sp)), len(range(0, sv, sp))
                    if len(verts) != nu * nv:
                        raise Violation('SK3', 'mesh has %d vertices, the strided grid has %d x %d' % (len(verts), nu, nv))
                    # MSH2: vertex k = (a, b) of the strided grid carries point (a*sp, b*sp) of the input grid and its own parametric position
                    for k, v in enumerate(verts):
                        a, b = divmod(k, nv)
                        want = b * sp + a * sp * sv
                        if lab(v) != want:
                            raise Violation('MSH2', 'vertex %d (grid position %d, %d with spacing %d) carries input point %r, expected point %d = v + u * size_v' % (k, a, b, sp, lab(v), want))
                        uv = v._a.get('uv')
                        wuv = [a * sp / float(su - 1), b * sp / float(sv - 1)]
                        if not isinstance(uv, (list, tuple)) or len(uv) != 2 or not all(isinstance(x, float) for x in uv):
                            raise Violation('MSH2', 'vertex %d has parametric position %r' % (k, uv))
                        if any(abs(x - y) > 1e-9 for x, y in zip(uv, wuv)):
                            raise Violation('MSH2', 'vertex %d carries input point (%d, %d) of a %d x %d grid but the parametric position (%.4f, %.4f); that point was evaluated at (%.4f, %.4f)'
                                            % (k, a * sp, b * sp, su, sv, uv[0], uv[1], wuv[0], wuv[1]))
                        if v._a.get('id') != k:
                            raise Violation('MSH2', 'vertex %d of the final list has id %r' % (k, v._a.get('id')))
                    # every cell of the strided grid once, corners (a, b), (a+1, b), (a+1, b+1), (a, b+1)
                    P = lambda a, b: b * sp + a * sp * sv
                    got = [tuple(lab(x) for x in c) for c in cells]
                    wantc = [(P(a, b), P(a + 1, b), P(a + 1, b + 1), P(a, b + 1)) for a in range(nu - 1) for b in range(nv - 1)]
                    if sorted(got) != sorted(wantc):
                        bad = next((g for g in got if g not in wantc), None)
                        raise Violation('MSH2', 'the tessellation function is handed the corner points %r; every cell (a, b) of the %d x %d vertex grid is handed once as '
                                        '(a, b), (a+1, b), (a+1, b+1), (a, b+1)' % (bad if bad else 'of %d cells instead of %d' % (len(got), len(wantc)), nu, nv))
                del cells[:]
                t.add((su, sv, sp), run1(m, '_tessellate.make_triangle_mesh', [pts(su * sv, 3, labelled=True), su, sv],
                                         {'vertex_spacing': sp, 'tessellate_func': Py(tslfunc, 'tsl')}, post, extra))
    finish(t, 'geomdl/_tessellate.py in _tessellate.make_triangle_mesh')
    # a tessellation function may hand grid vertices back in its vertex list (the shipped trimming tessellator does): the final vertex
    # list still holds every vertex object once, numbered 0..N-1 in list order
    def tsl_dup(sk, node, v1, v2, v3, v4, vidx, tidx, trims, targs):
        extra = Bag('Vertex', id=vidx, data=[Tok('DEF')] * 3, uv=[Tok('DEF')] * 2, vertices=[])
        t1, t2 = Bag('Triangle', data=[v1._a['id'], v2._a['id'], extra._a['id']]), Bag('Triangle', data=[v1._a['id'], v3._a['id'], v4._a['id']])
        t1._a['_vs'], t2._a['_vs'] = (v1, v2, extra), (v1, v3, v4)
        return [v1, extra, v3, v1], [t1, t2]
    t = Tally(run, 'FN2.each-vertex-once', '_tessellate.make_triangle_mesh :: tessellator that returns grid vertices again',
              'sample sizes 2..%d x spacing 1' % min(smax, 9))
    for size in range(2, min(smax, 9) + 1):
        def post(sk, out):
            verts, tris = out
            if len({id(v) for v in verts}) != len(verts):
                raise Violation('FN2', 'a vertex object occurs more than once in the final vertex list (it is renumbered several times and its last id wins)')
            ids = [v._a['id'] for v in verts]
            if ids != list(range(len(verts))):
                raise Violation('FN2', 'vertex ids are not 0..N-1 in list order: %r...' % (ids[:8],))
        t.add((size,), run1(m, '_tessellate.make_triangle_mesh', [pts(size * size, 3), size, size],
                            {'vertex_spacing': 1, 'tessellate_func': Py(tsl_dup, 'tsl')}, post, extra))
    finish(t, 'geomdl/_tessellate.py in _tessellate.make_triangle_mesh')


# ====================================================================================== C03: order-type enumeration
def compositions(total, maxpart):
    if total == 0:
        yield []
        return
    for first in range(1, min(maxpart, total) + 1):
        for rest in compositions(total - first, maxpart):
            yield [first] + rest


def knot_order_types(p, n, clamped=True):
    """rank sequences (order types) of valid knot vectors with n control points: clamped with every interior multiplicity pattern,
    or unclamped with distinct knots"""
    if clamped:
        for comp in compositions(n - p - 1, p):
            ranks = [0] * (p + 1)
            r = 0
            for mult in comp:
                r += 1
                ranks += [r] * mult
            ranks += [r + 1] * (p + 1)
            yield ranks
    else:
        yield list(range(n + p + 1))


def c03_order(m, run):
    """find_span_linear / find_span_binsearch / find_multiplicity / knotvector.check touch knots only through comparisons (and
    differences compared with a tolerance): they are decided exactly per order type, for every real knot vector of that type"""
    big = run.tier == 'thorough'
    P, N = (5, 5) if big else (3, 4)
    cases = []
    for p in range(1, P + 1):
        for n in range(p + 1, p + N + 1):
            for clamped in (True, False):
                for ranks in knot_order_types(p, n, clamped):
                    lo, hi = ranks[p], ranks[n]
                    pos = []
                    dist = sorted({r for r in ranks if lo <= r <= hi})
                    for a, b in zip(dist, dist[1:]):
                        pos += [a, (a + b) / 2.0]
                    pos.append(hi)
                    for u in pos:
                        cases.append((p, n, tuple(ranks), u))
    tl = Tally(run, 'OT1.span-is-the-half-open-interval', 'helpers.find_span_linear',
               'degree 1..%d x n = p+1..p+%d x every clamped interior multiplicity pattern and the distinct-knot unclamped type x every parameter on a knot or strictly between knots of the domain' % (P, N))
    tb = Tally(run, 'OT1.span-is-the-half-open-interval', 'helpers.find_span_binsearch', tl.describe)
    tm_ = Tally(run, 'OT2.multiplicity-count', 'helpers.find_multiplicity', tl.describe + '; every knot also approached from both sides within round-off')
    for p, n, ranks, u in cases:
        kv = [Ord(r) for r in ranks]
        if u == ranks[n]:
            want = max(i for i in range(p, n) if ranks[i] < ranks[i + 1])
        else:
            want = [i for i in range(p, n) if ranks[i] <= u < ranks[i + 1]]
            want = want[0] if len(want) == 1 else None
        for t, fkey in ((tl, 'helpers.find_span_linear'), (tb, 'helpers.find_span_binsearch')):
            def post(sk, out, want=want):
                if out != want:
                    raise Violation('OT1', 'returned span %r, the half-open interval containing the parameter is %r' % (out, want))
            t.add((p, n, ranks, u), run1(m, fkey, [p, kv, n, Ord(u)], {}, post))
            # a parameter a small but genuine amount (10^-6: above round-off and above the 10^-7 of the multiplicity count, far below the
            # distance of two knots) below an interior knot lies in the span *before* that knot, the same amount above it in the span
            # that starts there: no tolerance of the search may move it across the knot
            if u in ranks and ranks[p] < u < ranks[n]:
                for du in (-1e-6, 1e-6, -1e-9, 1e-9):          # (and 10^-9: the span searches compare exactly, any genuine amount counts)
                    wn = [i for i in range(p, n) if (ranks[i] < u if du < 0 else ranks[i] <= u) and (u <= ranks[i + 1] if du < 0 else u < ranks[i + 1])]
                    wn = wn[0] if len(wn) == 1 else None

                    def postn(sk, out, wn=wn, du=du):
                        if out != wn:
                            raise Violation('OT1', 'a parameter %g %s an interior knot: returned span %r, the half-open interval containing it is %r' % (abs(du), 'below' if du < 0 else 'above', out, wn))
                    t.add((p, n, ranks, u, du), run1(m, fkey, [p, kv, n, Ord(u, du)], {}, postn))
        wantm = sum(1 for r in ranks if r == u)

        def postm(sk, out, wantm=wantm):
            if out != wantm:
                raise Violation('OT2', 'returned multiplicity %r, the knot occurs %d times' % (out, wantm))
        tm_.add((p, n, ranks, u), run1(m, 'helpers.find_multiplicity', [Ord(u), kv], {}, postm))
        # a parameter that differs from a knot by round-off only (a NEAR rank) meets that knot through the tolerance: same count
        if u in ranks:
            for du in (1e-4, -1e-4):
                tm_.add((p, n, ranks, u + du), run1(m, 'helpers.find_multiplicity', [Ord(u + du), kv], {}, postm))
    for t in (tl, tb, tm_):
        finish(t, 'geomdl/helpers.py')
    # the list variant returns, for every parameter of a list, the span the single-parameter search returns (sorted lists with
    # parameters on knots included: a span found for one parameter is not a valid answer for the next one on the closing knot)
    from .skel import FnRef
    tls = Tally(run, 'OT1.span-is-the-half-open-interval', 'helpers.find_spans', tl.describe + ' (all positions of one knot vector passed as one ascending and as one descending list, both search functions)')
    for p in range(1, P + 1):
        for n in range(p + 1, p + N + 1):
            for clamped in (True, False):
                for ranks in knot_order_types(p, n, clamped):
                    lo, hi = ranks[p], ranks[n]
                    dist = sorted({r for r in ranks if lo <= r <= hi})
                    pos = []
                    for a, b in zip(dist, dist[1:]):
                        pos += [a, (a + b) / 2.0]
                    pos.append(hi)
                    want = []
                    for u in pos:
                        if u == ranks[n]:
                            want.append(max(i for i in range(p, n) if ranks[i] < ranks[i + 1]))
                        else:
                            want.append([i for i in range(p, n) if ranks[i] <= u < ranks[i + 1]][0])
                    for fkey in ('helpers.find_span_linear', 'helpers.find_span_binsearch'):
                        # ascending and descending lists: the answer for a parameter does not depend on its neighbours in the list
                        for order_, pos_, want_ in (('ascending', pos, want), ('descending', pos[::-1], want[::-1])):
                            def posts(sk, out, want=want_, order_=order_):
                                if list(out) != want:
                                    raise Violation('OT1', 'find_spans returned %r for the %s parameter list, the half-open intervals are %r' % (out, order_, want))
                            tls.add((p, n, tuple(ranks), fkey, order_), run1(m, 'helpers.find_spans', [p, [Ord(r) for r in ranks], n, [Ord(u) for u in pos_], FnRef(m.func(fkey))], {}, posts))
    finish(tls, 'geomdl/helpers.py')
    run.assume('order-type abstraction: distinct knots / parameters differ by more than every tolerance they are compared with (1e-5 snap of find_span_binsearch, 1e-7 of find_multiplicity)')
    # knotvector.check over every rank sequence (including decreasing ones and wrong lengths)
    tc = Tally(run, 'OT3.check-accepts-exactly-valid', 'knotvector.check', 'degree 1..2 x n = p+1..p+2 x every sequence over 3 ranks of length n+p, n+p+1, n+p+2')
    for p in (1, 2):
        for n in (p + 1, p + 2):
            for L in (n + p, n + p + 1, n + p + 2):
                for seq in itertools.product(range(3), repeat=L):
                    want = (L == n + p + 1) and all(a <= b for a, b in zip(seq, seq[1:]))

                    def postc(sk, out, want=want):
                        if bool(out) != want:
                            raise Violation('OT3', 'check returned %r, expected %r' % (out, want))
                    tc.add((p, n, seq), run1(m, 'knotvector.check', [p, [Ord(r) for r in seq], n], {}, postc))
                    if want or L == n + p + 1:
                        # the documented input type is "list, tuple": the verdict does not depend on which of the two is given
                        tc.add((p, n, seq, 'tuple'), run1(m, 'knotvector.check', [p, tuple(Ord(r) for r in seq), n], {}, postc))
    finish(tc, 'geomdl/knotvector.py')


def explore_case(m, fkey, make_args, post, max_paths=3000):
    def call(prefix):
        sk = SK(m, dict(STD_ABSTRACTED))
        sk.decisions = list(prefix)
        try:
            out = sk.call(m.func(fkey), make_args(), {})
            post(sk, out)
            return None, sk.trace
        except Violation as v:
            return (v.rule, '%s %s' % (v.msg, v.where())), sk.trace
        except Unsupported as ex:
            return ('UNSUPPORTED', str(ex)), sk.trace
    n, first, trunc = explore(call, max_paths)
    return n, first, trunc


def c03_single(m, run):
    """A2.4 / A2.5 (single basis function and its derivatives): knot comparisons decided per order type, arithmetic zero tests forked.
    Support clause: the value is the literal 0.0 outside the half-open support [U_i, U_{i+p+1}) (with the end-of-domain
    convention); derivative tables of order <= degree never return an untouched initial cell inside the support."""
    P = 3 if run.tier == 'thorough' else 2
    t1 = Tally(run, 'OT4.support-of-single-basis-function', 'helpers.basis_function_one',
               'degree 1..%d x clamped order types with n = p+1..p+3 x every function index x every parameter position; arithmetic zero tests forked' % P)
    t2 = Tally(run, 'OT4.support-of-single-basis-function', 'helpers.basis_function_ders_one', t1.describe + ' x order 0..degree')
    paths = 0
    for p in range(1, P + 1):
        for n in range(p + 1, p + 4):
            for ranks in knot_order_types(p, n, True):
                L = len(ranks)
                dist = sorted(set(ranks))
                pos = []
                for a, b in zip(dist, dist[1:]):
                    pos += [a, (a + b) / 2.0]
                pos.append(dist[-1])
                for i in range(0, n):
                    for u in pos:
                        special = (i == 0 and u == ranks[0]) or (i == L - p - 2 and u == ranks[-1])
                        inside = ranks[i] <= u < ranks[i + p + 1]

                        def post1(sk, out, special=special, inside=inside):
                            is_zero = isinstance(out, float) and out == 0.0
                            if special:
                                if not (isinstance(out, float) and out == 1.0):
                                    raise Violation('OT4', 'boundary case must return 1.0, returned %r' % (out,))
                            elif not inside and not is_zero and not (isinstance(out, Tok) and out.kind == 'PH0' and out.val == 0.0):
                                raise Violation('OT4', 'outside the half-open support the value must be 0.0, returned %r' % (out,))
                        npaths, first, trunc = explore_case(m, 'helpers.basis_function_one', lambda: [p, [Ord(r) for r in ranks], i, Ord(u)], post1)
                        paths += npaths
                        t1.add((p, tuple(ranks), i, u), None if first is None else (first[0], first[1]))
                        if p <= 2:
                            for order in range(0, p + 1):
                                end_zero = []

                                def post2(sk, out, inside=inside, order=order, special=special, at_end=(u == ranks[-1]), i=i, n=n, p=p):
                                    if len(out) != order + 1:
                                        raise Violation('OT4', 'derivative list has %d entries for order %d' % (len(out), order))
                                    if at_end:
                                        # at the last knot the k-th derivative of N_i is non-zero exactly for k >= n - 1 - i (k <= degree): the
                                        # all-functions routines evaluate there in the last non-empty span, the single-function routine must agree
                                        must = [k for k in range(0, order + 1) if n - 1 - i <= k <= p]
                                        # forks over-approximate the zero tests: the clause fails only if the literal 0.0 comes back on EVERY path
                                        end_zero.append({k for k in must if isinstance(out[k], float) and out[k] == 0.0})
                                    if inside or special:
                                        bad = [k for k, c in enumerate(out) if isinstance(c, Tok) and c.kind == 'PH0']
                                        if bad:
                                            raise Violation('OT4', 'derivatives %s are returned as the untouched initial fill although the parameter is inside the support' % bad)
                                npaths, first, trunc = explore_case(m, 'helpers.basis_function_ders_one', lambda: [p, [Ord(r) for r in ranks], i, Ord(u), order], post2, 1500)
                                paths += npaths
                                if first is None and end_zero:
                                    always = set.intersection(*end_zero)
                                    if always:
                                        first = ('OT4', 'at the end of the domain the derivatives %s of function %d are the literal 0.0 on every path (the local-support test '
                                                        'treats the last knot as outside); basis_function_ders gives non-zero values there' % (sorted(always), i))
                                t2.add((p, tuple(ranks), i, u, order), None if first is None else (first[0], first[1]))
    run.extra['ot4_paths'] = paths
    finish(t1, 'geomdl/helpers.py')
    finish(t2, 'geomdl/helpers.py')


# ====================================================================================== C06: A5.8 on a working copy
def c06(m, run):
    """helpers.knot_removal ports the in-place algorithm A5.8 onto a deep copy of its input.  Every removal step and the final
    shift are defined on the control points produced by the previous steps, so an element of the *input* array may be read only
    while the corresponding element of the working copy is still unchanged (SS1, exact per structural tuple: the interpreter
    compares cell identities at the moment of the read).  SK3: the result has n - num cells, each a defined point of the input
    shape.  The removability tests (distance <= tol) are forked both ways."""
    P = 4 if run.tier == 'thorough' else 3
    for lab in ('rows of points (curve / surface)', 'slabs of points (volume)'):
        ts = Tally(run, 'SS1.reads-follow-the-working-copy', 'helpers.knot_removal :: %s' % lab,
                   'degree 1..%d x clamped order types with n = p+2..p+4 x every interior knot x removal count 1..multiplicity; removability tests forked' % P)
        tc = Tally(run, 'SK3.cells-defined', 'helpers.knot_removal :: %s' % lab, ts.describe)
        tv = Tally(run, 'RM1.removability-test-compares-two-points', 'helpers.knot_removal :: %s' % lab, ts.describe)
        for p in range(1, P + 1):
            for n in range(p + 2, p + 5):
                for ranks in knot_order_types(p, n, True):
                    for rk in sorted(set(ranks))[1:-1]:
                        s = ranks.count(rk)
                        r = max(i for i, x in enumerate(ranks) if x == rk)
                        for num in range(1, s + 1):
                            def call(prefix, p=p, n=n, r=r, s=s, num=num, lab=lab):
                                vac = []
                                ab = dict(STD_ABSTRACTED)
                                ab[('linalg', 'point_distance')] = Py(lambda sk_, node, a, b, vac=vac: (vac.append(node) if a is b else None) or DEF(), 'point_distance')
                                sk = SK(m, ab)
                                sk.decisions = list(prefix)
                                rows = pts(n, 3) if lab.startswith('rows') else [pts(2, 3) for _ in range(n)]
                                res = {}
                                try:
                                    out = sk.call(m.func('helpers.knot_removal'), [p, floats(n + p + 1), rows, DEF()], {'num': num, 's': s, 'span': r})
                                    if sk.stale:
                                        node, idx = sk.stale[0]
                                        res['SS1'] = ('SS1', 'input element %d is read at line %d `%s` after the working copy changed that element: the updated point is ignored'
                                                      % (idx, node.lineno, __import__('ast').unparse(node)[:50]))
                                    if vac:
                                        res['RM1'] = ('RM1', 'the removability test at line %d measures the distance of a point to itself: every knot is declared removable' % vac[0].lineno)
                                    if len(out) != n - num:
                                        res['SK3'] = ('SK3', 'result has %d cells, expected %d' % (len(out), n - num))
                                    else:
                                        for i, c in enumerate(out):
                                            ok = shape_ok(c, 3) if lab.startswith('rows') else (isinstance(c, list) and len(c) == 2 and all(shape_ok(x, 3) for x in c))
                                            if not ok:
                                                res['SK3'] = ('SK3', 'output cell %d is not a defined point of the input shape' % i)
                                                break
                                except Violation as v:
                                    res['SK3'] = (v.rule, '%s %s' % (v.msg, v.where()))
                                except Unsupported as ex:
                                    res['SK3'] = ('UNSUPPORTED', str(ex))
                                call.res = res
                                first = res.get('SS1') or res.get('RM1') or res.get('SK3')
                                return first, sk.trace
                            agg = {}

                            def call2(prefix, call=call, agg=agg):
                                first, trace = call(prefix)
                                for k, v in call.res.items():
                                    agg.setdefault(k, v)
                                return first, trace
                            explore(call2, 64, stop_on_failure=True)
                            ts.add((p, tuple(ranks), r, s, num), agg.get('SS1'))
                            tc.add((p, tuple(ranks), r, s, num), agg.get('SK3'))
                            tv.add((p, tuple(ranks), r, s, num), agg.get('RM1'))
        finish(ts, 'geomdl/helpers.py in helpers.knot_removal')
        finish(tc, 'geomdl/helpers.py in helpers.knot_removal')
        # reported, not an obligation: a vacuous test only concerns knots that are NOT removable, which C06 does not quantify over
        if tv.bad:
            (rule, msg), cases = sorted(tv.bad.items(), key=lambda kv: -len(kv[1]))[0]
            run.note('RM1.removability-test-compares-two-points', tv.key, '%s [%d of %d tuples]' % (msg, len(cases), tv.n))


# ====================================================================================== C05: A5.4 over knot order types
def c05(m, run):
    """helpers.knot_refinement touches knots through comparisons, differences compared with a tolerance and midpoints of adjacent
    distinct knots: with the default knot list it is decided exactly per knot order type.  KR1: the returned knot vector is the sorted
    merge of the old knots and of every refined knot (old distinct knots and the density-times bisected midpoints) repeated
    degree - multiplicity times - no slot keeps its initial fill; SK3: the returned net has one defined cell per new knot."""
    big = run.tier == 'thorough'
    P, N = (5, 5) if big else (4, 4)
    for lab in ('rows of points (curve / surface)', 'slabs of points (volume)'):
        tk = Tally(run, 'KR1.refined-knot-vector-is-the-sorted-merge', 'helpers.knot_refinement :: %s' % lab,
                   'degree 1..%d x clamped order types with n = p+1..p+%d x {density 1, density 2, density 3 (small nets), one added knot inside the first span, an added knot on an existing knot plus one inside}; arithmetic zero tests forked' % (P, N))
        tc = Tally(run, 'SK3.cells-defined', 'helpers.knot_refinement :: %s' % lab, tk.describe)
        for p in range(1, P + 1):
            for n in range(p + 1, p + N + 1):
                for ranks in knot_order_types(p, n, True):
                    lo_, hi_ = ranks[p], ranks[p] + 1
                    variants = [(1, ()), (2, ()), (1, (lo_ + 0.25,)), (1, (hi_, lo_ + 0.25))]
                    if p <= 2 and n <= p + 2:
                        variants.append((3, ()))          # density d bisects d times (2^d parts per span), it does not cut a span into 2 d parts
                    for density, extra in variants:
                        dist = sorted(set(ranks[p:len(ranks) - p]) | set(extra))
                        for _ in range(density):
                            nxt = []
                            for a, b in zip(dist, dist[1:]):
                                nxt += [a, a + (b - a) / 2.0]
                            nxt.append(dist[-1])
                            dist = nxt
                        X = []
                        for k in dist:
                            X += [k] * (p - ranks.count(k))
                        want = sorted(list(ranks) + X)
                        agg = {}

                        def call(prefix, p=p, n=n, ranks=ranks, density=density, want=want, X=X, lab=lab, agg=agg, extra=extra):
                            sk = SK(m, dict(STD_ABSTRACTED))
                            sk.decisions = list(prefix)
                            rows = pts(n, 3) if lab.startswith('rows') else [pts(2, 3) for _ in range(n)]
                            res = {}
                            try:
                                kw = {'density': density}
                                if extra:
                                    kw['add_knot_list'] = [Ord(r) for r in extra]
                                out = sk.call(m.func('helpers.knot_refinement'), [p, [Ord(r) for r in ranks], rows], kw)
                                cp, kv = out
                                bad = [i for i, c in enumerate(kv) if not isinstance(c, Ord)]
                                if bad:
                                    res['KR1'] = ('KR1', 'slots %s of the refined knot vector are not knots (initial fill or computed value): %r' % (bad[:4], [kv[i] for i in bad[:2]]))
                                elif [c.rank for c in kv] != want:
                                    res['KR1'] = ('KR1', 'refined knot vector has the order type %s, the sorted merge of old and new knots is %s' % ([c.rank for c in kv], want))
                                if len(cp) != n + len(X):
                                    res['SK3'] = ('SK3', 'refined net has %d cells, expected %d' % (len(cp), n + len(X)))
                                else:
                                    for i, c in enumerate(cp):
                                        ok = shape_ok(c, 3) if lab.startswith('rows') else (isinstance(c, list) and len(c) == 2 and all(shape_ok(x, 3) for x in c))
                                        if not ok:
                                            res['SK3'] = ('SK3', 'cell %d of the refined net is not a defined point of the input shape' % i)
                                            break
                            except Violation as v:
                                if v.rule == 'RAISE' and not X:
                                    pass
                                else:
                                    res['SK3'] = (v.rule, '%s %s' % (v.msg, v.where()))
                            except Unsupported as ex:
                                res['SK3'] = ('UNSUPPORTED', str(ex))
                            for k_, v_ in res.items():
                                agg.setdefault(k_, v_)
                            return (res.get('KR1') or res.get('SK3')), sk.trace
                        if sum(len(v_) for v_ in tk.bad.values()) + sum(len(v_) for v_ in tc.bad.values()) > 12:
                            continue            # more than a dozen failing cases are recorded already: the verdict is settled, the rest of the box is skipped
                        explore(call, 256, stop_on_failure=True)
                        tk.add((p, tuple(ranks), density, extra), agg.get('KR1'))
                        tc.add((p, tuple(ranks), density, extra), agg.get('SK3'))
        finish(tk, 'geomdl/helpers.py in helpers.knot_refinement')
        finish(tc, 'geomdl/helpers.py in helpers.knot_refinement')


# ====================================================================================== C04 / C06: knot vector updates over order types
def _param_positions(ranks, p, n):
    dist = sorted({r for r in ranks if ranks[p] <= r <= ranks[n]})
    pos = []
    for a, b in zip(dist, dist[1:]):
        pos += [a, (a + b) / 2.0]
    return pos            # the domain end is excluded: no insertion / removal there


def c04_kv(m, run):
    """helpers.knot_insertion_kv only copies knots: with the span the span search returns for u (OT1), the new knot vector is exactly
    the sorted merge of the old one and r copies of u - for every order type, parameter position and admissible count"""
    P, N = (5, 5) if run.tier == 'thorough' else (4, 4)
    t = Tally(run, 'KI1.knot-vector-gains-sorted-copies', 'helpers.knot_insertion_kv',
              'degree 1..%d x clamped order types with n = p+1..p+%d x every parameter on a knot or strictly between knots x count 1..degree - multiplicity' % (P, N))
    for p in range(1, P + 1):
        for n in range(p + 1, p + N + 1):
            for ranks in knot_order_types(p, n, True):
                for u in _param_positions(ranks, p, n):
                    s = ranks.count(u)
                    span = [i for i in range(p, n) if ranks[i] <= u < ranks[i + 1]][0]
                    for r in range(1, p - s + 1):
                        want = sorted(list(ranks) + [u] * r)

                        def post(sk, out, want=want):
                            if not all(isinstance(c, Ord) for c in out):
                                raise Violation('KI1', 'a slot of the new knot vector is not a knot (initial fill): %r' % ([c for c in out if not isinstance(c, Ord)][:2],))
                            if [c.rank for c in out] != want:
                                raise Violation('KI1', 'new knot vector has order type %s, expected %s' % ([c.rank for c in out], want))
                        t.add((p, tuple(ranks), u, r), run1(m, 'helpers.knot_insertion_kv', [[Ord(x) for x in ranks], Ord(u), span, r], {}, post))
    finish(t, 'geomdl/helpers.py in helpers.knot_insertion_kv')


def c06_kv(m, run):
    """helpers.knot_removal_kv: with the span of the removed knot, the new knot vector is the old one without r copies of that knot"""
    P, N = (5, 5) if run.tier == 'thorough' else (4, 4)
    t = Tally(run, 'KRM1.knot-vector-loses-the-removed-copies', 'helpers.knot_removal_kv',
              'degree 1..%d x clamped order types with n = p+2..p+%d x every interior knot x count 1..multiplicity' % (P, N))
    for p in range(1, P + 1):
        for n in range(p + 2, p + N + 1):
            for ranks in knot_order_types(p, n, True):
                for rk in sorted(set(ranks))[1:-1]:
                    s = ranks.count(rk)
                    span = max(i for i, x in enumerate(ranks) if x == rk)
                    for r in range(1, s + 1):
                        want = list(ranks)
                        for _ in range(r):
                            want.remove(rk)

                        def post(sk, out, want=want):
                            if not all(isinstance(c, Ord) for c in out) or [c.rank for c in out] != want:
                                raise Violation('KRM1', 'new knot vector is %s, expected %s' % ([getattr(c, 'rank', c) for c in out], want))
                        t.add((p, tuple(ranks), rk, r), run1(m, 'helpers.knot_removal_kv', [[Ord(x) for x in ranks], span, r], {}, post))
    finish(t, 'geomdl/helpers.py in helpers.knot_removal_kv')


# ====================================================================================== C01 / C17 / C18: what the evaluator is asked for
def dom2(m, run):
    """DOM2: with no start/stop supplied, BSpline.{Curve,Surface,Volume}.evaluate asks its evaluator for the whole domain: per direction d
    start = knotvector_d[degree_d] and stop = knotvector_d[-(degree_d + 1)], passed as `start` / `stop` (scalars for a curve, tuples in
    (u, v, w) order otherwise).  Decided by interpreting the method on an abstract object whose knots are labelled tokens - whatever the
    spelling (named locals, per-direction loop, forwarding)."""
    cases = (('Curve', 1, (2,), (5,)), ('Surface', 2, (2, 1), (4, 5)), ('Volume', 3, (1, 2, 3), (3, 5, 4)))
    for cname, pdim, degs, sizes, stale in [c + (st_,) for c in cases for st_ in (False, True)]:
        key = 'BSpline.%s.evaluate' % cname
        kvs = [[Tok('DEF', dep=frozenset([(d, i)])) for i in range(n + p + 1)] for d, (p, n) in enumerate(zip(degs, sizes))]
        got = {}

        def ev(sk, node, *a, **k):
            got.update(k)
            got['__args__'] = a
            return []
        total = 1
        for s_ in sizes:
            total *= s_
        attrs = dict(_degree=list(degs), _knot_vector=kvs, _control_points=pts(total, 3), _control_points_size=list(sizes), _kv_normalize=False,
                     _evaluator=Bag('evaluator', evaluate=Py(ev, 'evaluate')), data={}, _eval_points=[[DEF(), DEF(), DEF()]] if stale else [], _cache={}, _bounding_box=[], _control_points2D=[],
                     _delta=[0.1] * pdim, _array_type=None, _rational=False, _pdim=pdim, _dimension=3, _precision=18, _tsl_component=Bag('tessellator', reset=Py(lambda sk, node, *a, **k: None, 'reset')), _trims=[])
        obj = Bag(('BSpline', cname), **attrs)
        sk = SK(m, dict(STD_ABSTRACTED))
        res = None
        try:
            sk.call(m.func(key), [obj], {})
        except Violation as v:
            res = '%s %s' % (v.msg, v.where())
        except Unsupported as ex:
            raise AnalysisError('%s: interpreter met an unsupported construct: %s' % (key, ex))
        if res is None:
            def lab(x):
                return next(iter(x.dep)) if isinstance(x, Tok) and x.dep and len(x.dep) == 1 else x
            st, sp = got.get('start'), got.get('stop')
            if not got:
                res = ('evaluate() returns without asking the evaluator%s' % (' when evaluated points are already stored: the points of an earlier evaluate(start=..., stop=...) over a '
                                                                              'sub-range survive a plain evaluate() and keep feeding evalpts, the bounding box and the tessellation' if stale else ''))
            elif st is None or sp is None:
                res = 'the evaluator is called without start/stop (%s): its own defaults, 0.0 and 1.0, replace the domain ends' % sorted(k for k in got if not k.startswith('__'))
            else:
                st = [st] if pdim == 1 and not isinstance(st, (list, tuple)) else list(st)
                sp = [sp] if pdim == 1 and not isinstance(sp, (list, tuple)) else list(sp)
                want_s = [(d, degs[d]) for d in range(pdim)]
                want_e = [(d, sizes[d]) for d in range(pdim)]          # index -(p + 1) of n + p + 1 knots is n
                gs, ge = [lab(x) for x in st], [lab(x) for x in sp]
                if gs != want_s or ge != want_e:
                    def show(v):
                        return ['knotvector_%s[%s]' % ('uvw'[x[0]], x[1]) if isinstance(x, tuple) else repr(x) for x in v]
                    res = 'default range is start=%s stop=%s, the domain is start=%s stop=%s' % (show(gs), show(ge), show(want_s), show(want_e))
        run.ob('DOM2.evaluator-receives-the-domain-ends', key + (' :: with evaluated points already stored' if stale else ''), res is None, 'start = knot[degree], stop = knot[-(degree + 1)] of every direction' if res is None else res,
               'geomdl/BSpline.py in %s' % key)


def abstract_shape(cname, pdim, degs, sizes, normalize, record):
    """an abstract BSpline.<cname> object: labelled knots, defined points, stubs for the evaluator and the operation slots that record their calls"""
    kvs = [[Tok('DEF', dep=frozenset([(d, i)])) for i in range(n + p + 1)] for d, (p, n) in enumerate(zip(degs, sizes))]
    total = 1
    for s_ in sizes:
        total *= s_

    def stub(name, ret=None):
        def f(sk, node, *a, **k):
            record.append((name, a, k))
            return ret() if callable(ret) else ret
        return Py(f, name)
    ev = Bag('evaluator', evaluate=stub('evaluator.evaluate', lambda: [[DEF(), DEF(), DEF()]]), derivatives=stub('evaluator.derivatives', lambda: [[DEF(), DEF(), DEF()]]))
    attrs = dict(_degree=list(degs), _knot_vector=kvs, _control_points=pts(total, 3), _control_points_size=list(sizes), _kv_normalize=normalize,
                 _evaluator=ev, data={}, _eval_points=[], _cache={}, _bounding_box=[], _control_points2D=[], _delta=[0.1] * pdim, _array_type=None,
                 _rational=False, _pdim=pdim, _dimension=3, _precision=18, _trims=[],
                 _tsl_component=Bag('tessellator', reset=stub('tessellator.reset')),
                 _insert_knot_func=stub('insert_knot_func'), _remove_knot_func=stub('remove_knot_func'), _span_func=stub('span_func', 0))
    return Bag(('BSpline', cname), **attrs)


def rg2(m, run, methods):
    """RG2: a shape created with normalize_kv=False is never tested against the unit interval: interpreting the named methods on an
    abstract un-normalised object, utilities.check_params is not reached (whatever helper the test has been moved into) and the request
    reaches the evaluator / operation slot.  Decided per method of BSpline.{Curve,Surface,Volume}."""
    cases = (('Curve', 1, (2,), (5,)), ('Surface', 2, (2, 1), (4, 5)), ('Volume', 3, (1, 2, 3), (3, 5, 4)))
    n = 0
    for cname, pdim, degs, sizes in cases:
        for meth in methods:
            fi = m.lookup(('BSpline', cname), meth, 'methods')
            if fi is None:
                continue
            ps = [a.arg for a in fi.node.args.args][1:]
            record = []
            obj = abstract_shape(cname, pdim, degs, sizes, False, record)
            prm = DEF() if pdim == 1 else tuple(DEF() for _ in range(pdim))
            args = []
            for p_ in ps:
                if p_ in ('u', 'v', 'w'):
                    args.append(DEF())
                elif p_ in ('param', 'parpos', 'uv', 'uvw'):
                    args.append(prm)
                elif p_ in ('param_list',):
                    args.append([prm, prm])
                elif p_ in ('order',):
                    args.append(1)
                else:
                    args.append(DEF())
            ab = dict(STD_ABSTRACTED)
            called = []
            ab[('utilities', 'check_params')] = Py(lambda sk, node, *a, _c=called: (_c.append(node) or False), 'check_params')
            sk = SK(m, ab)
            note = None
            try:
                sk.call(fi, [obj] + args, {})
            except Violation as v:
                if v.rule != 'RAISE':
                    note = '%s %s' % (v.msg, v.where())
            except Unsupported as ex:
                note = 'unsupported construct: %s' % ex
            key = '%s.%s' % (fi.key.rsplit('.', 1)[0] if False else 'BSpline.' + cname, meth)
            if called:
                n += 1
                run.ob('RG2.no-unit-range-test-for-un-normalised-shapes', key, False,
                       'on an object created with normalize_kv=False the method reaches utilities.check_params (line %d): valid parameters outside [0, 1] are rejected '
                       'or silently dropped' % called[0].lineno, 'geomdl/%s.py:%d in %s' % (fi.mod, called[0].lineno, fi.key))
            elif note is not None and not record:
                run.note('RG2.no-unit-range-test-for-un-normalised-shapes', key, 'not decided by interpretation (%s)' % note)
            elif not record or (meth == 'evaluate_list' and sum(1 for r_ in record if r_[0].startswith('evaluator.')) != 2):
                n += 1
                run.ob('RG2.no-unit-range-test-for-un-normalised-shapes', key, False,
                       'on an object created with normalize_kv=False the request never reaches the evaluator / operation slot (%d of the expected calls recorded): '
                       'the parameters are silently dropped' % len(record), 'geomdl/%s.py:%d in %s' % (fi.mod, fi.node.lineno, fi.key))
            else:
                n += 1
                run.ob('RG2.no-unit-range-test-for-un-normalised-shapes', key, True, 'check_params is not reached; the request reaches %s' % (record[0][0] if record else 'the end of the method'),
                       'geomdl/%s.py in %s' % (fi.mod, fi.key))
            # the other half of the clause: on a shape with normalised knot vectors the same methods do consult check_params, forward
            # what it accepts and keep away from the evaluator what it rejects
            if meth in ('evaluate_single', 'evaluate_list', 'derivatives', 'insert_knot', 'remove_knot'):
                for verdict in (True, False):
                    record2 = []
                    obj2 = abstract_shape(cname, pdim, degs, sizes, True, record2)
                    called2 = []
                    ab2 = dict(STD_ABSTRACTED)
                    ab2[('utilities', 'check_params')] = Py(lambda sk, node, *a, _c=called2, _v=verdict: (_c.append(node) or _v), 'check_params')
                    sk2 = SK(m, ab2)
                    raised = False
                    try:
                        sk2.call(fi, [obj2] + args, {})
                    except Violation as v:
                        raised = v.rule == 'RAISE'
                        if not raised:
                            continue
                    except Unsupported:
                        continue
                    reached = [r_ for r_ in record2 if r_[0].startswith('evaluator.') or r_[0] in ('insert_knot_func', 'remove_knot_func')]
                    n += 1
                    if verdict:
                        ok2 = bool(called2) and bool(reached) and not raised
                        msg = 'parameters inside [0, 1] are checked and evaluated' if ok2 else (
                            'on a normalised shape %s' % ('the parameters are never tested against [0, 1]' if not called2 else 'parameters that pass the [0, 1] test do not reach the evaluator'))
                    else:
                        ok2 = bool(called2) and not reached
                        msg = 'parameters outside [0, 1] are rejected / skipped' if ok2 else (
                            'on a normalised shape parameters that fail the [0, 1] test %s' % ('still reach the evaluator' if called2 else 'are never tested'))
                    run.ob('RG2.unit-range-test-for-normalised-shapes', '%s :: check_params says %s' % (key, verdict), ok2, msg, 'geomdl/%s.py:%d in %s' % (fi.mod, fi.node.lineno, fi.key))
    return n


def wr2(m, run, meth, slot):
    """WR2: BSpline.{Curve,Surface,Volume}.<meth> hands exactly the request it was given to the operation slot: the parameter list carries each
    given coordinate at its direction's position (None elsewhere) and the count list carries that direction's num[_d] keyword - also for the
    coordinate 0.0 and for counts given for one direction only.  Decided by interpreting the wrapper on an abstract object and inspecting the
    recorded call of the slot."""
    cases = (('Curve', 1, (2,), (5,)), ('Surface', 2, (2, 1), (4, 5)), ('Volume', 3, (1, 2, 3), (3, 5, 4)))
    for cname, pdim, degs, sizes in cases:
        fi = m.lookup(('BSpline', cname), meth, 'methods')
        if fi is None:
            raise AnalysisError('BSpline.%s.%s not found' % (cname, meth))
        ps = [a.arg for a in fi.node.args.args][1:]
        scen = []
        for d in range(pdim):
            scen.append(('only %s, at 0.0' % 'uvw'[d], {d: 0.0}, {d: 2}))
            if pdim > 1:
                scen.append(('only %s, the other counts given as 0' % 'uvw'[d], {d: 0.5}, {e: (2 if e == d else 0) for e in range(pdim)}))
        scen.append(('all directions', {d: 0.25 * (d + 1) for d in range(pdim)}, {d: d + 2 for d in range(pdim)}))
        for label, params, counts in scen:
            record = []
            obj = abstract_shape(cname, pdim, degs, sizes, False, record)
            args = []
            for p_ in ps:
                if pdim == 1:
                    args.append(params.get(0))
                else:
                    args.append(params.get('uvw'.index(p_)) if p_ in 'uvw' else None)
            kw = {('num' if pdim == 1 else 'num_' + 'uvw'[d]): c for d, c in counts.items()}
            sk = SK(m, dict(STD_ABSTRACTED))
            key = 'BSpline.%s.%s :: %s' % (cname, meth, label)
            try:
                sk.call(fi, [obj] + args, kw)
            except Violation as v:
                run.ob('WR2.wrapper-hands-on-the-request', key, v.rule == 'RAISE' and False, '%s %s' % (v.msg, v.where()), 'geomdl/%s.py in %s' % (fi.mod, fi.key))
                continue
            except Unsupported as ex:
                raise AnalysisError('%s: interpreter met an unsupported construct: %s' % (key, ex))
            calls = [r for r in record if r[0] == slot]
            why = None
            if len(calls) != 1:
                why = 'the operation is called %d times: the request is %s' % (len(calls), 'silently ignored' if not calls else 'applied more than once')
            else:
                a = calls[0][1]
                plist = list(a[1]) if len(a) > 1 and isinstance(a[1], (list, tuple)) else None
                nlist = list(a[2]) if len(a) > 2 and isinstance(a[2], (list, tuple)) else None
                if a[0] is not obj:
                    why = 'the operation does not receive the object itself'
                elif plist is None or nlist is None or len(plist) != pdim or len(nlist) != pdim:
                    why = 'parameter / count lists are not %d-element lists: %r %r' % (pdim, plist, nlist)
                else:
                    for d in range(pdim):
                        want_p = params.get(d)
                        if plist[d] != want_p or (want_p is not None and plist[d] is None):
                            why = 'direction %s: the operation receives the parameter %r, the request was %r' % ('uvw'[d], plist[d], want_p)
                        elif d in params and nlist[d] != counts[d]:
                            why = 'direction %s: the operation receives the count %r, the request was %r' % ('uvw'[d], nlist[d], counts[d])
            run.ob('WR2.wrapper-hands-on-the-request', key, why is None, 'the slot receives the coordinates and counts of the request in (u, v, w) order' if why is None else why,
                   'geomdl/%s.py in %s' % (fi.mod, fi.key))


# ====================================================================================== C04 / C06: the operations on abstract objects
def ops2(m, run, fname, helper, sign):
    """OPS2: operations.insert_knot / remove_knot interpreted on abstract curves, surfaces and volumes whose control points carry their flat
    index as a label and whose knots are ordered tokens.  The per-row helper (A5.1 / A5.8) is replaced by a stub with a known effect on the
    row list (insertion: the first row is repeated num times in front; removal: the first num rows are dropped), so the expected result is
    known for every cell: the net changes by num along the requested directions only, set_ctrlpts receives the new sizes in (u, v, w) order and
    a flat list in which the cell at v + Sv*(u + Su*w) is the input cell at the mapped coordinates; the knot vector of a requested direction
    gains / loses exactly num copies of the parameter, the others are untouched.  One request per direction and one with all directions at
    once (the later directions must work on the net the earlier ones produced).  Spelling-independent form of AX3/LY1/LY2/LY3/GA1."""
    cases = (('Curve', 1, (2,), (4,), [[0, 0, 0, 1, 2, 2, 2]]),
             ('Surface', 2, (2, 1), (4, 5), [[0, 0, 0, 1, 2, 2, 2], [0, 0, 1, 2, 3, 4, 4]]),
             ('Volume', 3, (1, 1, 2), (3, 4, 5), [[0, 0, 1, 2, 2], [0, 0, 1, 2, 3, 3], [0, 0, 0, 1, 2, 3, 3, 3]]))
    for cname, pdim, degs, sizes, ranks in cases:
        reqs = [({d: 2} if helper == 'knot_refinement' else {d: 1}) for d in range(pdim)]
        if pdim > 1:
            reqs.append({d: 1 for d in range(pdim)})
        for req in reqs:
            label = 'direction ' + '+'.join('uvw'[d] for d in sorted(req))
            key = 'operations.%s :: BSpline.%s, %s' % (fname, cname, label)
            record = []
            obj = abstract_shape(cname, pdim, degs, sizes, False, record)
            kv0 = [[Ord(r) for r in rk] for rk in ranks]
            obj._a['_knot_vector'] = [list(k) for k in kv0]
            total = 1
            for s_ in sizes:
                total *= s_
            obj._a['_control_points'] = pts(total, 3, labelled=True)
            if pdim == 2:
                # the 2-D view holds the very point lists of the flat array (the invariant set_ctrlpts establishes)
                obj._a['_control_points2D'] = [[obj._a['_control_points'][v_ + sizes[1] * u_] for v_ in range(sizes[1])] for u_ in range(sizes[0])]
            setc = []

            def set_ctrlpts(sk, node, cp, *sz, _o=obj, **k):
                setc.append((cp, tuple(sz)))
                _o._a['_control_points'] = cp
                _o._a['_control_points_size'] = list(sz) if sz else [len(cp)]
                if len(sz) == 2 and len(cp) == sz[0] * sz[1]:
                    _o._a['_control_points2D'] = [[cp[v_ + sz[1] * u_] for v_ in range(sz[1])] for u_ in range(sz[0])]
            obj._a['set_ctrlpts'] = Py(set_ctrlpts, 'set_ctrlpts')
            ab = dict(STD_ABSTRACTED)

            def stub(sk, node, deg, kv, rows, u=None, **k):
                num = k.get('num', 1)
                record.append((helper, deg, len(rows), k.get('density', num) if helper == 'knot_refinement' else num))
                if helper == 'knot_refinement':
                    # one new row in front, one new knot strictly inside the first span
                    return [rows[0]] + list(rows), sorted(list(kv) + [Ord(0.5)])
                return ([rows[0]] * num + list(rows)) if sign > 0 else list(rows)[num:]
            ab[('helpers', helper)] = Py(stub, helper)
            # the knot to insert lies strictly inside the first span; the knot to remove is the first interior knot
            param, num = [None] * pdim, [0] * pdim
            for d, c in req.items():
                param[d] = Ord(0.5) if sign > 0 else Ord(1)
                num[d] = c
            sk = SK(m, ab)
            why = None
            try:
                if helper == 'knot_refinement':
                    sk.call(m.func('operations.' + fname), [obj, num], {})
                else:
                    sk.call(m.func('operations.' + fname), [obj, param, num], {})
            except Violation as v:
                why = '%s %s' % (v.msg, v.where())
            except Unsupported as ex:
                if 'truth value of abstract float' in str(ex):
                    why = 'a knot / parameter value is used as a truth value (`if knot`, `knot and ...`): the valid value 0.0 counts as "no request" and the operation is skipped'
                else:
                    raise AnalysisError('%s: interpreter met an unsupported construct: %s' % (key, ex))
            if why is None:
                grow = {d: (1 if helper == 'knot_refinement' else c) for d, c in req.items()}
                new_sizes = [sizes[d] + sign * grow.get(d, 0) for d in range(pdim)]
                cp = obj._a['_control_points']
                got_sizes = obj._a['_control_points_size']
                if pdim > 1 and list(got_sizes) != new_sizes:
                    why = 'set_ctrlpts received the sizes %s, the net after the operation is %s (u, v, w)' % (list(got_sizes), new_sizes)
                else:
                    exp_total = 1
                    for s_ in new_sizes:
                        exp_total *= s_
                    if len(cp) != exp_total:
                        why = 'the new flat list has %d cells, %s needs %d' % (len(cp), new_sizes, exp_total)
                if why is None:
                    def old_index(coord):
                        oc = []
                        for d in range(pdim):
                            c = coord[d]
                            if d in req:
                                c = max(c - grow[d], 0) if sign > 0 else c + grow[d]
                            oc.append(c)
                        if pdim == 1:
                            return oc[0]
                        if pdim == 2:
                            return oc[1] + sizes[1] * oc[0]
                        return oc[1] + sizes[1] * (oc[0] + sizes[0] * oc[2])
                    import itertools as _it
                    for coord in _it.product(*[range(s_) for s_ in new_sizes]):
                        if pdim == 1:
                            idx = coord[0]
                        elif pdim == 2:
                            idx = coord[1] + new_sizes[1] * coord[0]
                        else:
                            idx = coord[1] + new_sizes[1] * (coord[0] + new_sizes[0] * coord[2])
                        fp = footprint(cp[idx]) if isinstance(cp[idx], list) else None
                        want = frozenset([old_index(coord)])
                        if fp != want:
                            why = 'the cell at (u, v, w) = %s of the new net (flat index %d) is the input cell %s, expected input cell %s: rows are gathered or scattered ' \
                                  'with the wrong stride / order, or a later direction worked on a stale net' % (coord, idx, sorted(fp) if fp is not None else '?', sorted(want))
                            break
                if why is None:
                    for d in range(pdim):
                        got = [getattr(k_, 'rank', None) for k_ in obj._a['_knot_vector'][d]]
                        if d in req:
                            u_r = 0.5 if sign > 0 else 1
                            want_kv = sorted(ranks[d] + [u_r] * grow[d]) if sign > 0 else list(ranks[d])
                            if sign < 0:
                                for _ in range(grow[d]):
                                    want_kv.remove(u_r)
                        else:
                            want_kv = list(ranks[d])
                        if got != want_kv:
                            why = 'knot vector of direction %s is %s after the operation, expected %s' % ('uvw'[d], got, want_kv)
                            break
                if why is None and len(req) == 1:
                    d0 = next(iter(req))
                    for (_h, deg_, nrows, cnt) in [r for r in record if r[0] == helper]:
                        if deg_ != degs[d0] or nrows != sizes[d0] or cnt != req[d0]:
                            why = 'for a request in direction %s the row helper is called with degree %r, %r rows and count %r; that direction has degree %d, %d rows ' \
                                  'and the requested count is %d' % ('uvw'[d0], deg_, nrows, cnt, degs[d0], sizes[d0], req[d0])
                            break
                if why is None:
                    want_calls = {}
                    for d in req:
                        rows = 1
                        for e in range(pdim):
                            if e != d and pdim == 2:
                                rows *= sizes[e] + (sign * req.get(e, 0) if e < d else 0)
                        want_calls[d] = rows
                    if not any(r[0] == helper for r in record):
                        why = 'the row helper %s is never called: the request is ignored' % helper
            run.ob('OPS2.operation-on-abstract-net', key, why is None,
                   'sizes, flat layout of every cell and all knot vectors are as requested' if why is None else why, 'geomdl/operations.py in operations.%s' % fname)


# ====================================================================================== C13: control point managers (pure integer code)
def mg2(m, run):
    """MG2: <K>Manager(sizes).find_index(u[, v[, w]]) is the canonical flat index v + Sv*(u + Su*w) - pure integer code, interpreted
    exactly for every index tuple of a box of pairwise different sizes, on a manager built by its own constructor chain (whichever class in
    the hierarchy implements the index)"""
    import itertools as _it
    for cname, boxes in (('CurveManager', [(4,), (7,)]), ('SurfaceManager', [(3, 4), (5, 2)]), ('VolumeManager', [(2, 3, 4), (4, 2, 3), (3, 5, 2)])):
        fi = m.lookup(('control_points', cname), 'find_index', 'methods')
        if fi is None:
            raise AnalysisError('control_points.%s.find_index not found in the class hierarchy' % cname)
        bad = None
        n = 0
        for sizes in boxes:
            try:
                sk0 = SK(m, dict(STD_ABSTRACTED))
                sk0.construct = True
                obj = sk0.apply(('class', ('control_points', cname)), list(sizes), {}, None)       # the manager's own constructor chain
            except Violation as v:
                bad = bad or (sizes, '-', 'the constructor fails: %s' % v.msg, 'an object')
                continue
            except Unsupported as ex:
                raise AnalysisError('control_points.%s: interpreter met an unsupported construct in the constructor: %s' % (cname, ex))
            for coord in _it.product(*[range(s_) for s_ in sizes]):
                sk = SK(m, dict(STD_ABSTRACTED))
                try:
                    got = sk.call(fi, [obj] + list(coord), {})
                except Violation as v:
                    got = 'error: %s' % v.msg
                except Unsupported as ex:
                    raise AnalysisError('control_points.%s.find_index: interpreter met an unsupported construct: %s' % (cname, ex))
                if len(sizes) == 1:
                    want = coord[0]
                elif len(sizes) == 2:
                    want = coord[1] + sizes[1] * coord[0]
                else:
                    want = coord[1] + sizes[1] * (coord[0] + sizes[0] * coord[2])
                n += 1
                if got != want and bad is None:
                    bad = (sizes, coord, got, want)
        run.ob('MG2.manager-index-is-canonical', 'control_points.%s.find_index (implemented in %s)' % (cname, fi.key), bad is None,
               '%d index tuples over the sizes %s give v + Sv*(u + Su*w)' % (n, boxes) if bad is None else
               'sizes %s, position %s: find_index returns %r, the canonical flat index (v fastest, then u, then w) is %r' % bad, 'geomdl/control_points.py in %s' % fi.key)


# ====================================================================================== C13: extraction on an abstract surface
def recorder(kind, made):
    """an abstract freshly constructed shape that records what is assigned to it"""
    b = Bag('rec:' + kind, _kind=kind)
    b._a['set_ctrlpts'] = Py(lambda sk, node, cp, *sz, _b=b, **k: _b._a.__setitem__('ctrlpts', (list(cp), tuple(sz))), 'set_ctrlpts')
    b._a['__class__'] = Py(lambda sk, node, *a, **k: recorder(kind, made), '__class__')
    made.append(b)
    return b


def ex2(m, run):
    """EX2: construct.extract_curves on an abstract surface with index-labelled control points: the 'u' family has one curve per v index made
    of the points (u, v) for all u, with the u degree and u knot vector; the 'v' family one curve per u index, with the v data; the
    options extract_u / extract_v switch off exactly their own family"""
    su, sv, pu, pv = 3, 4, 2, 1
    kvu, kvv = [Tok('DEF', dep=frozenset([('ku', i)])) for i in range(su + pu + 1)], [Tok('DEF', dep=frozenset([('kv', i)])) for i in range(sv + pv + 1)]
    for opts in ({}, {'extract_u': False}, {'extract_v': False}):
        made = []
        cpts = pts(su * sv, 3, labelled=True)
        data = dict(rational=False, degree=(pu, pv), knotvector=(kvu, kvv), size=(su, sv), control_points=cpts, dimension=3, pdimension=2, type='spline')
        surf = Bag(('BSpline', 'Surface'), data=data, _pdim=2, __len__=1, _rational=False)
        ab = dict(STD_ABSTRACTED)
        for cls in ('Curve',):
            for mod in ('BSpline', 'NURBS'):
                ab[('class', (mod, cls))] = (lambda sk, node, *a, _m=mod, **k: recorder(_m + '.Curve', made))
        sk = SK(m, ab)
        key = 'construct.extract_curves :: options %s' % (opts or 'default')
        why = None
        try:
            out = sk.call(m.func('construct.extract_curves'), [surf], dict(opts))
        except Violation as v:
            why = '%s %s' % (v.msg, v.where())
            out = None
        except Unsupported as ex:
            raise AnalysisError('%s: interpreter met an unsupported construct: %s' % (key, ex))
        if why is None:
            want_u = opts.get('extract_u', True)
            want_v = opts.get('extract_v', True)
            fam = {'u': (want_u, sv, su, pu, 'ku', lambda a, b: b + sv * a), 'v': (want_v, su, sv, pv, 'kv', lambda a, b: a + sv * b)}
            for name, (wanted, ncurves, npts, deg, kvlab, idx) in fam.items():
                lst = out.get(name) if isinstance(out, dict) else None
                if lst is None:
                    why = 'the result has no %r family' % name
                    break
                if not wanted:
                    if lst:
                        why = 'extract_%s=False still returns %d curves of the %s family (and the option switches off the other family instead)' % (name, len(lst), name)
                        break
                    continue
                if len(lst) != ncurves:
                    why = 'the %s family has %d curves, expected %d%s' % (name, len(lst), ncurves, ' (switched off by the option of the other family)' if not lst else '')
                    break
                for c_i, crv in enumerate(lst):
                    cp = crv._a.get('ctrlpts', ([], ()))[0]
                    got = [next(iter(footprint(p))) if footprint(p) and len(footprint(p)) == 1 else None for p in cp]
                    # curve c_i of family u runs over u at fixed v = c_i; of family v over v at fixed u = c_i
                    want = [idx(a, c_i) if name == 'u' else idx(a, c_i) for a in range(npts)]
                    if got != want:
                        why = 'curve %d of the %s family is made of the flat indices %s, expected %s' % (c_i, name, got, want)
                        break
                    if crv._a.get('degree') != deg:
                        why = 'curve %d of the %s family gets degree %r, the %s degree is %d' % (c_i, name, crv._a.get('degree'), name, deg)
                        break
                    kv = crv._a.get('knotvector')
                    labs = {next(iter(k_.dep))[0] for k_ in kv if isinstance(k_, Tok) and k_.dep} if isinstance(kv, list) else set()
                    if labs != {kvlab}:
                        why = 'curve %d of the %s family gets the knot vector of direction %s' % (c_i, name, sorted(labs))
                        break
                if why:
                    break
        run.ob('EX2.extracted-curve-families', key, why is None, 'both families carry the rows, degree and knot vector of their own direction' if why is None else why,
               'geomdl/construct.py in construct.extract_curves')


# ====================================================================================== compatibility converters on monomial cells
def _mono_grid(su, sv, hd):
    return [[[Mono({(i, j, c): 1}) for c in range(hd)] for j in range(sv)] for i in range(su)]


def _weighted(cell, sign):
    w = cell[-1]
    return [c.combine(w, sign) for c in cell[:-1]] + [w]


ANY = object()


def _same_cells(got, want):
    """None when the nested lists agree cell by cell, else a description of the first difference"""
    def walk(g, w, path):
        if isinstance(w, list):
            if not isinstance(g, (list, tuple)):
                return 'at %s: expected a list of %d, found %r' % (path or 'top', len(w), g)
            if len(g) != len(w):
                return 'at %s: %d entries, expected %d' % (path or 'top', len(g), len(w))
            for k, (a, b) in enumerate(zip(g, w)):
                r = walk(a, b, path + '[%d]' % k)
                if r:
                    return r
            return None
        if w is ANY:
            return None
        if isinstance(w, frozenset):
            return None if isinstance(g, Tok) and g.dep == w else 'at %s: found a value computed from %s, expected one computed from %s' % (path, sorted(g.dep) if isinstance(g, Tok) and g.dep else g, sorted(w))
        if isinstance(w, Mono):
            return None if isinstance(g, Mono) and g == w else 'at %s: found %r, expected %r' % (path, g, w)
        return None if g == w else 'at %s: found %r, expected %r' % (path, g, w)
    return walk(got, want, '')


def cv3(m, run, which=('pure', 'file')):
    """CV3: every converter of geomdl.compatibility interpreted on a non-square net whose coordinates are monomial atoms: the result is,
    cell by cell, the documented one (x*w / x/w / w kept, [u][v] <-> [v][u], u-fastest <-> v-fastest) and the 2-D file variants save the
    array of their own converter with the row / column counts of the array they save"""
    su, sv = 2, 3
    g4 = _mono_grid(su, sv, 4)
    flat_canon = [g4[i][j] for i in range(su) for j in range(sv)]          # v fastest
    flat_ufast = [g4[i][j] for j in range(sv) for i in range(su)]          # u fastest
    g3 = _mono_grid(su, sv, 3)
    flat3 = [g3[i][j] for i in range(su) for j in range(sv)]
    ws = [Mono({('w', k): 1}) for k in range(su * sv)]
    cases = []
    if 'pure' in which:
        cases += [
            ('flip_ctrlpts_u', [flat_ufast, su, sv], flat_canon, 'a u-fastest list becomes the v-fastest list of the same net'),
            ('flip_ctrlpts', [flat_canon, su, sv], flat_ufast, 'a v-fastest list becomes the u-fastest list of the same net'),
            ('flip_ctrlpts2d', [g4, su, sv], [[g4[i][j] for i in range(su)] for j in range(sv)], '[u][v] becomes [v][u]'),
            ('flip_ctrlpts2d', [g4], [[g4[i][j] for i in range(su)] for j in range(sv)], '[u][v] becomes [v][u] (sizes detected)'),
            ('generate_ctrlptsw', [flat_canon], [_weighted(c, 1) for c in flat_canon], '(x, y, z, w) becomes (x*w, y*w, z*w, w)'),
            ('generate_ctrlpts_weights', [flat_canon], [_weighted(c, -1) for c in flat_canon], '(xw, yw, zw, w) becomes (xw/w, yw/w, zw/w, w)'),
            ('generate_ctrlptsw2d', [g4], [[_weighted(c, 1) for c in row] for row in g4], '(x, y, z, w) becomes (x*w, y*w, z*w, w), same [u][v] shape'),
            ('generate_ctrlpts2d_weights', [g4], [[_weighted(c, -1) for c in row] for row in g4], '(xw, yw, zw, w) becomes (x, y, z, w), same [u][v] shape'),
            ('combine_ctrlpts_weights', [flat3, ws], [[c.combine(w, 1) for c in p] + [w] for p, w in zip(flat3, ws)], 'point k is multiplied by weight k and weight k appended'),
            ('combine_ctrlpts_weights', [flat3], [[c.dep for c in p] + [ANY] for p in flat3], 'no weights: every coordinate computed from itself only, one weight appended'),
            ('separate_ctrlpts_weights', [flat_canon], [[[c.combine(p[-1], -1) for c in p[:-1]] for p in flat_canon], [p[-1] for p in flat_canon]],
             'coordinates divided by their own weight, weights listed in the same order'),
        ]
    for name, args, want, doc in cases:
        fi = m.func('compatibility.' + name)
        sk = SK(m, dict(STD_ABSTRACTED))
        key = 'compatibility.%s(%d argument%s)' % (name, len(args), '' if len(args) == 1 else 's')
        try:
            out = sk.call(fi, list(args), {})
            why = _same_cells(out, want)
        except Violation as v:
            why = '%s %s' % (v.msg, v.where())
        except Unsupported as ex:
            raise AnalysisError('%s: interpreter met an unsupported construct: %s' % (key, ex))
        run.ob('CV3.converter-on-monomial-cells', key, why is None, doc if why is None else 'expected: %s; %s' % (doc, why), 'geomdl/compatibility.py:%d in %s' % (fi.node.lineno, fi.key))
    if 'file' in which:
        fcases = [
            ('flip_ctrlpts2d_file', [[g4[i][j] for i in range(su)] for j in range(sv)], (sv, su), 'saves the [v][u] array with (size_v, size_u) as its row / column counts'),
            ('generate_ctrlptsw2d_file', [[_weighted(c, 1) for c in row] for row in g4], (su, sv), 'saves the weighted array with the sizes read'),
            ('generate_ctrlpts2d_weights_file', [[_weighted(c, -1) for c in row] for row in g4], (su, sv), 'saves the unweighted array with the sizes read'),
        ]
        for name, want, wsz, doc in fcases:
            fi = m.func('compatibility.' + name)
            saved = []
            ab = dict(STD_ABSTRACTED)
            ab[('compatibility', '_read_ctrltps2d_file')] = Py(lambda sk_, node, *a, **k: (g4, su, sv), 'read')
            ab[('compatibility', '_save_ctrlpts2d_file')] = Py(lambda sk_, node, arr, a, b, *r, _s=saved, **k: _s.append((arr, a, b)), 'save')
            sk = SK(m, ab)
            key = 'compatibility.%s' % name
            try:
                sk.call(fi, ['in', 'out'], {})
                if len(saved) != 1:
                    why = 'saves %d arrays' % len(saved)
                else:
                    arr, a, b = saved[0]
                    why = _same_cells(arr, want)
                    if why is None and (a, b) != wsz:
                        why = 'the array saved is [%d][%d] but _save_ctrlpts2d_file is told %d rows of %d columns' % (wsz[0], wsz[1], a, b)
            except Violation as v:
                why = '%s %s' % (v.msg, v.where())
            except Unsupported as ex:
                raise AnalysisError('%s: interpreter met an unsupported construct: %s' % (key, ex))
            run.ob('CV3.file-variant-on-monomial-cells', key, why is None, doc if why is None else 'expected: %s; %s' % (doc, why), 'geomdl/compatibility.py:%d in %s' % (fi.node.lineno, fi.key))


def pp2(m, run):
    """PP2: CPGen.GridWeighted.grid interpreted on a non-square grid of monomial cells with one monomial weight per point: cell [i][j] of
    the result is the point [i][j] multiplied by weight number j + i * (points per row), with that weight appended"""
    fi = m.cls('CPGen', 'GridWeighted').getters.get('grid')
    if fi is None:
        raise AnalysisError('CPGen.GridWeighted.grid getter not found')
    for rows, cols in ((3, 4), (4, 2)):
        g = _mono_grid(rows, cols, 3)
        ws = [Mono({('w', k): 1}) for k in range(rows * cols)]
        # _size_u / _size_v are the numbers of divisions: one less than the numbers of points
        self_ = Bag(('CPGen', 'GridWeighted'), _grid_points=g, _weights=list(ws), _size_u=rows - 1, _size_v=cols - 1, _cache={'gridptsw': []}, __len__=rows * cols)
        want = [[[c.combine(ws[j + i * cols], 1) for c in g[i][j]] + [ws[j + i * cols]] for j in range(cols)] for i in range(rows)]
        sk = SK(m, dict(STD_ABSTRACTED))
        key = '%s :: %d x %d points' % (fi.key, rows, cols)
        try:
            out = sk.call(fi, [self_], {})
            why = _same_cells(out, want)
        except Violation as v:
            why = '%s %s' % (v.msg, v.where())
        except Unsupported as ex:
            raise AnalysisError('%s: interpreter met an unsupported construct: %s' % (key, ex))
        run.ob('PP2.per-point-weight-on-monomial-cells', key, why is None, 'every point is multiplied by its own weight' if why is None else
               'point [i][j] must be multiplied by weight j + i * (points per row); %s' % why, 'geomdl/CPGen.py:%d in %s' % (fi.node.lineno, fi.key))


# ====================================================================================== C10: rotation on abstract shapes
def _abs_shape_for_transform(e, pdim, npts, dim):
    """element number e of an abstract container: labelled control points, a start point labelled by the element it is evaluated on"""
    b = Bag('rec:shape', dimension=dim, pdimension=pdim, _elem=e, rational=False, type='spline')
    lab = lambda i, s: Tok('DEF', dep=frozenset([('dom', i, s)]))
    b._a['domain'] = [(lab(i, 0), lab(i, 1)) for i in range(pdim)] if pdim > 1 else (lab(0, 0), lab(0, 1))
    b._a['ctrlpts'] = [[Tok('DEF', dep=frozenset([('pt', e, k, c)])) for c in range(dim)] for k in range(npts)]
    b._a['_asked'] = []
    b._a['evaluate_single'] = Py(lambda sk, node, prm, _e=e, _b=b: _b._a['_asked'].append(prm) or [Tok('DEF', dep=frozenset([('start', _e, c)])) for c in range(dim)], 'evaluate_single')
    b._a['__iter__'] = [b]
    return b


def rt2(m, run):
    """RT2: operations.rotate interpreted (in place) on an abstract container of two shapes with labelled control point coordinates and a
    start point labelled by the element it was evaluated on: every coordinate of every element depends on the start point of element 0
    only (one origin for the whole container), the coordinate on the rotation axis depends on itself only, the two others on each other"""
    fi = m.func('operations.rotate')
    for pdim in (1, 2, 3):
        for axis in (0, 1, 2):
            elems = [_abs_shape_for_transform(e, pdim, 2, 3) for e in range(2)]
            cont = Bag('rec:container', dimension=3, pdimension=pdim)
            cont._a['__iter__'] = elems
            sk = SK(m, dict(STD_ABSTRACTED))
            key = 'operations.rotate :: container of two %s, axis=%d' % (('curves', 'surfaces', 'volumes')[pdim - 1], axis)
            why = None
            try:
                out = sk.call(fi, [cont, DEF()], {'axis': axis, 'inplace': True})
                if out is not cont:
                    why = 'inplace=True does not return the object passed in'
                for g in elems:
                    for prm in g._a['_asked']:
                        got = [sorted(x.dep)[0][1:] if isinstance(x, Tok) and x.dep and len(x.dep) == 1 else None for x in (prm if isinstance(prm, (list, tuple)) else [prm])]
                        if got != [(i, 0) for i in range(pdim)] or (pdim > 1) != isinstance(prm, (list, tuple)):
                            why = 'the origin is evaluated at %s; it is the start of the domain of every parametric direction, %s' % (
                                ['domain[%d][%d]' % x if x else '?' for x in got], ['domain[%d][0]' % i for i in range(pdim)])
                for e, g in enumerate(elems):
                    if why:
                        break
                    cp = g._a['ctrlpts']
                    if not isinstance(cp, list) or len(cp) != 2:
                        why = 'element %d ends with %r control points' % (e, len(cp) if isinstance(cp, list) else cp)
                        break
                    for k, pt in enumerate(cp):
                        if why:
                            break
                        if not isinstance(pt, (list, tuple)) or len(pt) != 3:
                            why = 'element %d point %d has %r coordinates' % (e, k, pt)
                            break
                        for c, v in enumerate(pt):
                            dep = v.dep if isinstance(v, Tok) and v.dep else frozenset()
                            starts = {l[1] for l in dep if l[0] == 'start'}
                            own = {l[3] for l in dep if l[0] == 'pt' and l[1] == e and l[2] == k}
                            foreign = {l for l in dep if l[0] == 'pt' and (l[1] != e or l[2] != k)}
                            want_own = {c} if c == axis else {0, 1, 2} - {axis}
                            if starts - {0}:
                                why = 'element %d is rotated about the start point of element %s; the whole container turns about one origin, the start point of its first element' % (e, sorted(starts - {0}))
                            elif starts != {0}:
                                why = 'coordinate %d of element %d point %d does not depend on the rotation origin (translate to the origin / rotate / translate back)' % (c, e, k)
                            elif foreign:
                                why = 'coordinate %d of element %d point %d depends on other control points %s' % (c, e, k, sorted(foreign)[:3])
                            elif own != want_own:
                                why = 'rotation about axis %d: coordinate %d of a point is computed from its coordinates %s, expected %s' % (axis, c, sorted(own), sorted(want_own))
                            if why:
                                break
            except Violation as v:
                why = '%s %s' % (v.msg, v.where())
            except Unsupported as ex:
                raise AnalysisError('%s: interpreter met an unsupported construct: %s' % (key, ex))
            run.ob('RT2.rotation-on-abstract-container', key, why is None, 'one origin (start of the first element); axis coordinate kept, the plane coordinates mixed' if why is None else why,
                   'geomdl/operations.py:%d in operations.rotate' % fi.node.lineno)


def rt3(m, run):
    """RT3: operations.rotate interpreted (in place) on a shape whose control point coordinates, start point and angle are symbolic
    atoms; polynomial arithmetic is exact, cos / sin / radians are atoms.  Every resulting coordinate is o + M (p - o) with o the start
    point, M built from cos(radians(angle)) and sin(radians(angle)) only, M M^T = I modulo cos^2 + sin^2 = 1, det M = 1, and the
    axis row and column of M those of the identity."""
    from .poly import Poly
    from .skel import Sym
    fi = m.func('operations.rotate')
    for axis in (0, 1, 2):
        b = Bag('rec:shape', dimension=3, pdimension=1, rational=False, type='spline')
        b._a['domain'] = [DEF(), DEF()]
        b._a['ctrlpts'] = [[Sym('p%d_%d' % (k, c)) for c in range(3)] for k in range(2)]
        b._a['evaluate_single'] = Py(lambda sk, node, prm: [Sym('o%d' % c) for c in range(3)], 'evaluate_single')
        b._a['__iter__'] = [b]
        sk = SK(m, dict(STD_ABSTRACTED))
        sk.exact = True
        key = 'operations.rotate :: axis=%d' % axis
        why = None
        mtxt = ''
        try:
            sk.call(fi, [b, Sym('alpha')], {'axis': axis, 'inplace': True})
            cp = b._a['ctrlpts']
            Cn, Sn = 'cos(radians(alpha))', 'sin(radians(alpha))'
            rel = [(Cn, 2, Poly.const(1) - Poly.atom(Sn) * Poly.atom(Sn))]
            Ms = []
            for k, pt in enumerate(cp):
                if not isinstance(pt, (list, tuple)) or len(pt) != 3 or not all(isinstance(v, Sym) for v in pt):
                    why = 'point %d is %r after the rotation: not an exact polynomial map of the input coordinates' % (k, pt)
                    break
                M = []
                for c, v in enumerate(pt):
                    q = v.p
                    for j in range(3):
                        q = q.subs('p%d_%d' % (k, j), Poly.atom('o%d' % j) + Poly.atom('d%d' % j))
                    q = q - Poly.atom('o%d' % c)
                    row = []
                    rest = q
                    for j in range(3):
                        cf = q.coeff_of('d%d' % j)
                        row.append(cf if cf is not None else Poly())
                        rest = rest.without('d%d' % j)
                    if rest != Poly():
                        why = 'coordinate %d of point %d is not o + M (p - o) with o the start point: remainder %r' % (c, k, rest)
                        break
                    extra = {a for cf in row for a in cf.atoms()} - {Cn, Sn}
                    if extra:
                        why = 'the matrix entries involve %s; they are built from cos and sin of radians(angle) only' % sorted(extra)
                        break
                    M.append(row)
                if why:
                    break
                Ms.append(M)
            if not why:
                M = Ms[0]
                mtxt = '[' + '; '.join(', '.join(repr(x) for x in row) for row in M) + ']'
                if any(Mk != M for Mk in Ms[1:]):
                    why = 'different points are mapped with different matrices'
                else:
                    orth = all(sum((M[a][j] * M[b_][j] for j in range(3)), Poly()).reduce(rel) == (Poly.const(1) if a == b_ else Poly()) for a in range(3) for b_ in range(3))
                    det = (M[0][0] * (M[1][1] * M[2][2] - M[1][2] * M[2][1]) - M[0][1] * (M[1][0] * M[2][2] - M[1][2] * M[2][0])
                           + M[0][2] * (M[1][0] * M[2][1] - M[1][1] * M[2][0])).reduce(rel)
                    one, zero = Poly.const(1), Poly()
                    fix = all(M[axis][j] == (one if j == axis else zero) for j in range(3)) and all(M[j][axis] == (one if j == axis else zero) for j in range(3))
                    ident = all(M[a][b_] == (one if a == b_ else zero) for a in range(3) for b_ in range(3))
                    if not orth:
                        why = 'matrix %s is not orthogonal: the map distorts the shape' % mtxt
                    elif det != one:
                        why = 'det M = %r for M = %s (a reflection or a scaling)' % (det, mtxt)
                    elif not fix:
                        why = 'rotation about axis %d changes / uses coordinate %d: M = %s' % (axis, axis, mtxt)
                    elif ident:
                        why = 'the map is the identity'
        except Violation as v:
            why = '%s %s' % (v.msg, v.where())
        except Unsupported as ex:
            raise AnalysisError('%s: interpreter met an unsupported construct: %s' % (key, ex))
        run.ob('RT3.rotation-is-exact-rigid-map', key, why is None, 'p -> o + M (p - o), M = %s orthogonal with det 1, axis fixed' % mtxt if why is None else why,
               'geomdl/operations.py:%d in operations.rotate' % fi.node.lineno)


def tr3(m, run):
    """TR3: operations.translate / operations.scale interpreted (in place) on a container of two shapes with symbolic coordinates: every
    coordinate c of every point becomes exactly p_c + vec_c, respectively p_c * multiplier"""
    from .poly import Poly
    from .skel import Sym
    for name, arg, want, doc in (('translate', [Sym('v%d' % c) for c in range(3)], lambda p, c: p + Poly.atom('v%d' % c), 'p[c] + vec[c]'),
                                 ('scale', Sym('s'), lambda p, c: p * Poly.atom('s'), 'p[c] * multiplier')):
        fi = m.func('operations.' + name)
        elems = []
        for e in range(2):
            b = Bag('rec:shape', dimension=3, pdimension=1, ctrlpts_size=2, rational=False, type='spline')
            b._a['ctrlpts'] = [[Sym('p%d_%d_%d' % (e, k, c)) for c in range(3)] for k in range(2)]
            b._a['__iter__'] = [b]
            elems.append(b)
        cont = Bag('rec:container', dimension=3, pdimension=1)
        cont._a['__iter__'] = elems
        sk = SK(m, dict(STD_ABSTRACTED))
        sk.exact = True
        key = 'operations.%s :: container of two shapes' % name
        why = None
        try:
            sk.call(fi, [cont, arg], {'inplace': True})
            for e, g in enumerate(elems):
                cp = g._a['ctrlpts']
                if not isinstance(cp, list) or len(cp) != 2:
                    why = 'element %d ends with %r control points' % (e, cp)
                    break
                for k, pt in enumerate(cp):
                    if not isinstance(pt, (list, tuple)) or len(pt) != 3:
                        why = 'element %d point %d is %r' % (e, k, pt)
                        break
                    for c, v in enumerate(pt):
                        w = want(Poly.atom('p%d_%d_%d' % (e, k, c)), c)
                        if not isinstance(v, Sym) or v.p != w:
                            why = 'coordinate %d of element %d point %d becomes %r, expected %r' % (c, e, k, v, w)
                            break
                    if why:
                        break
                if why:
                    break
        except Violation as v:
            why = '%s %s' % (v.msg, v.where())
        except Unsupported as ex:
            raise AnalysisError('%s: interpreter met an unsupported construct: %s' % (key, ex))
        run.ob('TR3.transform-is-exact-map', key, why is None, 'every coordinate becomes ' + doc if why is None else why, 'geomdl/operations.py:%d in %s' % (fi.node.lineno, fi.key))


# ====================================================================================== C15: mesh exporters in text mode
def _mesh_container(counts, faces):
    """abstract surface container: surface s has counts[s] vertices (coordinates and parameters are labelled tokens) and the triangles
    faces[s] (local vertex ids)"""
    def L(name):
        return Tok('DEF', dep=frozenset([name]))
    surfs = []
    for s, n in enumerate(counts):
        verts = []
        for k in range(n):
            d = [L('p%d_%d_%d' % (s, k, c)) for c in range(3)]
            verts.append(Bag('Vertex', id=k, data=d, x=d[0], y=d[1], z=d[2], uv=[L('uv%d_%d_%d' % (s, k, c)) for c in range(2)], u=None, v=None))
        tris = []
        for t, ids in enumerate(faces[s]):
            tris.append(Bag('Triangle', id=t, data=list(ids), vertices=[verts[i] for i in ids], vertex_ids=list(ids), _lab='n%d_%d' % (s, t)))
        srf = Bag('rec:surface', pdimension=2, sample_size_u=3, sample_size_v=3, dimension=3)
        srf._a['tessellator'] = Bag('rec:tessellator', vertices=verts, faces=tris)
        srf._a['tessellate'] = Py(lambda sk, node, *a, **k: None, 'tessellate')
        srf._a['__iter__'] = [srf]
        surfs.append(srf)
    cont = Bag('rec:container', pdimension=2, sample_size_u=5, sample_size_v=5, dimension=3)
    cont._a['__iter__'] = surfs
    return cont, surfs


def mx2(m, run):
    """MX2: export_obj_str / export_off_str / export_stl_str (ASCII) interpreted in text mode on an abstract container of three surfaces with
    different vertex counts: the text is parsed back and must list every vertex once in surface order, refer from every face to the
    vertices of its own surface (local id + number of vertices of the earlier surfaces, + 1 for OBJ) and, for OFF, declare the counts of
    the records that follow"""
    counts = [4, 3, 5]
    faces = [[(0, 1, 2), (0, 2, 3)], [(0, 1, 2)], [(0, 1, 4), (1, 2, 3), (4, 3, 2)]]
    offs = [0, 4, 7]
    ab = dict(STD_ABSTRACTED)
    ab[('linalg', 'triangle_normal')] = Py(lambda sk, node, t, *a, **k: [Tok('DEF', dep=frozenset(['%s_%d' % (t._a['_lab'], c)])) for c in range(3)], 'triangle_normal')
    want_v = ['<p%d_%d_0> <p%d_%d_1> <p%d_%d_2>' % (s, k, s, k, s, k) for s in range(3) for k in range(counts[s])]
    want_vp = ['<uv%d_%d_0> <uv%d_%d_1>' % (s, k, s, k) for s in range(3) for k in range(counts[s])]

    def want_f(base):
        return [' '.join(str(i + offs[s] + base) for i in ids) for s in range(3) for ids in faces[s]]

    def run_one(name, kw, sk):
        cont, surfs = _mesh_container(counts, faces)
        out = sk.call(m.func('exchange.' + name), [cont], dict(kw))
        if not isinstance(out, str):
            raise Violation('MX2', 'returns %r, not text' % (type(out).__name__,))
        return [l for l in out.split('\n')], surfs

    def first_diff(kind, got, want):
        if len(got) != len(want):
            return '%d %s records, expected %d' % (len(got), kind, len(want))
        for k, (a, b) in enumerate(zip(got, want)):
            if a != b:
                return '%s record %d is `%s`, expected `%s`' % (kind, k, a, b)
        return None

    for name, kw, fmt in (('export_obj_str', {'parametric_vertices': True}, 'obj'), ('export_off_str', {}, 'off'), ('export_stl_str', {'binary': False}, 'stl')):
        key = 'exchange.%s :: container of three surfaces with %s vertices' % (name, counts)

        def mk_sk():
            sk_ = SK(m, ab)
            sk_.text = True
            return sk_

        def scenario(sk, name=name, kw=kw, fmt=fmt):
            why = None
            lines, surfs = run_one(name, kw, sk)
            if fmt == 'obj':
                v = [l[2:] for l in lines if l.startswith('v ')]
                vp = [l[3:] for l in lines if l.startswith('vp ')]
                f = [l[2:] for l in lines if l.startswith('f ')]
                why = first_diff('vertex', v, want_v) or first_diff('parameter-space vertex', vp, want_vp) or first_diff('face', f, want_f(1))
                if why and 'face' in why:
                    why += ' (1-based index of the vertex line of the same surface: local id + 1 + vertices of the earlier surfaces)'
            elif fmt == 'off':
                nv, nf = sum(counts), sum(len(x) for x in faces)
                body = [l for l in lines[2:] if l != '']
                if lines[0] != 'OFF':
                    why = 'first line is `%s`, expected OFF' % lines[0]
                elif lines[1].split() != [str(nv), str(nf), '0']:
                    why = 'header is `%s`, expected `%d %d 0` (numbers of vertex and face records that follow)' % (lines[1], nv, nf)
                else:
                    why = first_diff('vertex', body[:nv], want_v) or first_diff('face', body[nv:], ['3 ' + x for x in want_f(0)])
                    if why and 'face' in why:
                        why += ' (0-based index of the vertex line of the same surface: local id + vertices of the earlier surfaces)'
            else:
                body = [l.strip() for l in lines if l.strip()]
                want = ['solid Surface']
                for s in range(3):
                    for t, ids in enumerate(faces[s]):
                        want.append('facet normal <n%d_%d_0> <n%d_%d_1> <n%d_%d_2>' % (s, t, s, t, s, t))
                        want.append('outer loop')
                        want += ['vertex <p%d_%d_0> <p%d_%d_1> <p%d_%d_2>' % (s, i, s, i, s, i) for i in ids]
                        want += ['endloop', 'endfacet']
                want.append('endsolid Surface')
                why = first_diff('STL', body, want)
            # every surface was asked to tessellate with the sample sizes of the container unless update_delta is switched off
            if why is None:
                for s, srf in enumerate(surfs):
                    if (srf._a['sample_size_u'], srf._a['sample_size_v']) != (5, 5):
                        why = 'surface %d is tessellated with sample sizes %r, the container has (5, 5) per direction' % (s, (srf._a['sample_size_u'], srf._a['sample_size_v']))
                        break

            return why
        try:
            why = forked(mk_sk, scenario, key)
        except Unsupported as ex:
            raise AnalysisError('%s: interpreter met an unsupported construct: %s' % (key, ex))

        run.ob('MX2.mesh-text-parses-back', key, why is None, 'every vertex once in surface order; faces refer to the vertices of their own surface; counts declared' if why is None else why,
               'geomdl/exchange.py:%d in exchange.%s' % (m.func('exchange.' + name).node.lineno, name))


# ====================================================================================== C16: linear algebra over exact rational functions
def _symmat(name, n, mcols=None, zeros=()):
    from .skel import Sym
    return [[0.0 if (i, j) in zeros else Sym('%s%d%d' % (name, i, j)) for j in range(mcols or n)] for i in range(n)]


def _as_sym(x):
    from .skel import Sym
    from .poly import Poly
    if isinstance(x, Sym):
        return x
    if isinstance(x, Tok) and x.kind == 'PH0' and isinstance(x.val, (int, float)):
        return Sym(Poly.const(x.val))
    from fractions import Fraction
    if isinstance(x, (int, float, Fraction)) and not isinstance(x, bool):
        return Sym(Poly.const(x))
    return None


def _mat_eq(sk, A, B, what):
    """None when the two matrices of rational functions are identical, else the first differing entry"""
    if len(A) != len(B):
        return '%s: %d rows, expected %d' % (what, len(A), len(B))
    for i, (ra, rb) in enumerate(zip(A, B)):
        if not isinstance(ra, (list, tuple)) or len(ra) != len(rb):
            return '%s: row %d is %r' % (what, i, ra)
        for j, (a, b) in enumerate(zip(ra, rb)):
            sa_, sb_ = _as_sym(a), _as_sym(b)
            if sa_ is None or sb_ is None:
                return '%s: entry [%d][%d] is %r, not an exact value' % (what, i, j, a)
            if not sa_.same(sb_):
                return '%s: entry [%d][%d] is %s, expected %s' % (what, i, j, repr(sa_)[:120], repr(sb_)[:120])
    return None


def _matmul(sk, A, B):
    import operator as o
    out = []
    for i in range(len(A)):
        row = []
        for j in range(len(B[0])):
            acc = 0
            for k in range(len(B)):
                acc = sk.arith(o.add, acc, sk.arith(o.mul, _as_sym(A[i][k]), _as_sym(B[k][j]), None), None)
            row.append(acc)
        out.append(row)
    return out


def la3(m, run):
    """LA3: the LU kernels interpreted on matrices whose entries are symbolic atoms, arithmetic exact over rational functions: doolittle
    gives L unit lower triangular and U upper triangular with L U = A for the dense matrix and for every pattern of structural zeros off
    the diagonal; the substitutions solve L y = b and U x = y; lu_solve and lu_factor return x with A x = b, lu_factor for every row
    permutation its pivoting may choose"""
    import itertools as it
    from .skel import Sym
    from .poly import Poly
    site_ = lambda fi: 'geomdl/%s.py:%d in %s' % (fi.mod if fi.mod != '_linalg' else '_linalg', fi.node.lineno, fi.key)

    def attempt(key, rule, fi, fn, okmsg):
        sk = SK(m, dict(STD_ABSTRACTED))
        sk.exact = True
        try:
            why = fn(sk)
        except Violation as v:
            why = '%s %s' % (v.msg, v.where())
        except Unsupported as ex:
            raise AnalysisError('%s: interpreter met an unsupported construct: %s' % (key, ex))
        run.ob(rule, key, why is None, okmsg if why is None else why, site_(fi))

    # ---- doolittle
    fi = m.func('_linalg.doolittle')
    n = 3
    offdiag = [(i, j) for i in range(n) for j in range(n) if i != j]
    pats = [()] + [c for r in (1, 2, 3) for c in it.combinations(offdiag, r)]
    bad = []
    for zeros in pats:
        A = _symmat('a', n, zeros=zeros)

        def fn(sk, A=A):
            L, U = sk.call(fi, [[list(r) for r in A]], {})
            for i in range(n):
                for j in range(n):
                    l, u = _as_sym(L[i][j]), _as_sym(U[i][j])
                    if l is None or u is None:
                        return 'entry [%d][%d] of L / U is %r / %r' % (i, j, L[i][j], U[i][j])
                    if i == j and not l.same(Sym(Poly.const(1))):
                        return 'L[%d][%d] is %r, L has a unit diagonal' % (i, j, l)
                    if j > i and not l.is_zero():
                        return 'L[%d][%d] is not zero: L is lower triangular' % (i, j)
                    if j < i and not u.is_zero():
                        return 'U[%d][%d] is not zero: U is upper triangular' % (i, j)
            return _mat_eq(sk, _matmul(sk, L, U), A, 'L U')
        sk = SK(m, dict(STD_ABSTRACTED))
        sk.exact = True
        try:
            why = fn(sk)
        except Violation as v:
            why = '%s %s' % (v.msg, v.where())
        except Unsupported as ex:
            raise AnalysisError('_linalg.doolittle: interpreter met an unsupported construct: %s' % ex)
        if why:
            bad.append((zeros, why))
    run.ob('LA3.lu-kernels-exact', '_linalg.doolittle :: 3 x 3 symbolic matrix, %d patterns of structural zeros' % len(pats), not bad,
           'L unit lower, U upper, L U = A as an identity of rational functions' if not bad else
           'with structural zeros at %s: %s   [%d of %d patterns]' % (list(bad[0][0]) or 'no position', bad[0][1], len(bad), len(pats)), site_(fi))

    # ---- substitutions
    L = [[1.0 if i == j else (Sym('l%d%d' % (i, j)) if j < i else 0.0) for j in range(3)] for i in range(3)]
    U = [[Sym('u%d%d' % (i, j)) if j >= i else 0.0 for j in range(3)] for i in range(3)]
    bvec = [Sym('b%d' % i) for i in range(3)]
    for name, M in (('forward_substitution', L), ('backward_substitution', U)):
        fs = m.func('linalg.' + name)

        def fn(sk, fs=fs, M=M):
            x = sk.call(fs, [[list(r) for r in M], list(bvec)], {})
            if not isinstance(x, list) or len(x) != 3:
                return 'returns %r' % (x,)
            return _mat_eq(sk, _matmul(sk, M, [[v] for v in x]), [[v] for v in bvec], 'M x')
        attempt('linalg.%s :: 3 x 3 symbolic triangular matrix' % name, 'LA3.lu-kernels-exact', fs, fn, 'M x = b as an identity of rational functions')

    # ---- lu_solve
    A = _symmat('a', 3)
    B = _symmat('b', 3, 2)
    fl = m.func('linalg.lu_solve')

    # (should lu_solve ever pivot, the pivoting helper is replaced by a 3-cycle: the solution must still satisfy A x = b)
    def fn(sk):
        cyc = (1, 2, 0)
        sk.abstracted[('linalg', 'matrix_pivot')] = Py(lambda sk_, node, *a, **k: ([list(A[cyc[i]]) for i in range(3)], [[1.0 if cyc[i] == j else 0.0 for j in range(3)] for i in range(3)]) +
                                                       ((1.0,) if k.get('sign', a[1] if len(a) > 1 else False) else ()), 'matrix_pivot')
        x = sk.call(fl, [[list(r) for r in A], [list(r) for r in B]], {})
        return _mat_eq(sk, _matmul(sk, A, x), B, 'A x')
    attempt('linalg.lu_solve :: 3 x 3 symbolic matrix, two right-hand sides', 'LA3.lu-kernels-exact', fl, fn, 'A x = b as an identity of rational functions')

    # ---- lu_factor: the pivoting helper is replaced by each row permutation it may choose
    ff = m.func('linalg.lu_factor')
    badp = []
    perms = list(it.permutations(range(3)))
    for perm in perms:
        P = [[1.0 if perm[i] == j else 0.0 for j in range(3)] for i in range(3)]
        PA = [list(A[perm[i]]) for i in range(3)]
        ab = dict(STD_ABSTRACTED)
        ab[('linalg', 'matrix_pivot')] = Py(lambda sk, node, *a, _P=P, _PA=PA, **k: ([list(r) for r in _PA], [list(r) for r in _P]), 'matrix_pivot')
        sk = SK(m, ab)
        sk.exact = True
        try:
            x = sk.call(ff, [[list(r) for r in A], [list(r) for r in B]], {})
            why = _mat_eq(sk, _matmul(sk, A, x), B, 'A x')
        except Violation as v:
            why = '%s %s' % (v.msg, v.where())
        except Unsupported as ex:
            raise AnalysisError('linalg.lu_factor: interpreter met an unsupported construct: %s' % ex)
        if why:
            badp.append((perm, why))
    # ---- matrix_inverse / matrix_determinant: same replacement of the pivoting helper
    def parity(perm):
        s = 1
        for i in range(len(perm)):
            for j in range(i + 1, len(perm)):
                if perm[i] > perm[j]:
                    s = -s
        return s
    fi_inv, fi_det = m.func('linalg.matrix_inverse'), m.func('linalg.matrix_determinant')
    a = lambda i, j: Poly.atom('a%d%d' % (i, j))
    leib = Poly()
    for perm in perms:
        leib = leib + a(0, perm[0]) * a(1, perm[1]) * a(2, perm[2]) * parity(perm)
    bad_inv, bad_det = [], []
    inv_perms = perms if run.tier == 'thorough' else [(0, 1, 2), (1, 2, 0), (2, 0, 1)]       # identity and the two 3-cycles (P != P^T)
    for perm in perms:
        P = [[1.0 if perm[i] == j else 0.0 for j in range(3)] for i in range(3)]
        PA = [list(A[perm[i]]) for i in range(3)]

        def hook(sk, node, *args, _P=P, _PA=PA, _s=float(parity(perm)), **k):
            want_sign = k.get('sign', args[1] if len(args) > 1 else False)
            base = ([list(r) for r in _PA], [list(r) for r in _P])
            return base + (_s,) if want_sign else base
        ab = dict(STD_ABSTRACTED)
        ab[('linalg', 'matrix_pivot')] = Py(hook, 'matrix_pivot')
        for fi_, bad_, kind in ((fi_inv, bad_inv, 'inv'), (fi_det, bad_det, 'det')):
            if kind == 'inv' and perm not in inv_perms:
                continue
            sk = SK(m, ab)
            sk.exact = True
            try:
                out = sk.call(fi_, [[list(r) for r in A]], {})
                if kind == 'inv':
                    why = _mat_eq(sk, _matmul(sk, A, out), [[1.0 if i == j else 0.0 for j in range(3)] for i in range(3)], 'A inverse(A)')
                else:
                    d = _as_sym(out)
                    why = None if d is not None and d.same(Sym(leib)) else 'returns %s, the determinant is %r' % (repr(out)[:160], leib)
            except Violation as v:
                why = '%s %s' % (v.msg, v.where())
            except Unsupported as ex:
                raise AnalysisError('%s: interpreter met an unsupported construct: %s' % (fi_.key, ex))
            if why:
                bad_.append((perm, why))
    for fi_, bad_, what in ((fi_inv, bad_inv, 'A inverse(A) = I'), (fi_det, bad_det, 'the Leibniz determinant')):
        run.ob('LA3.lu-kernels-exact', '%s :: 3 x 3 symbolic matrix, every row permutation chosen by the pivoting' % fi_.key, not bad_,
               '%s for all %d permutations' % (what, len(inv_perms) if fi_ is fi_inv else len(perms)) if not bad_ else
               'when the pivoting orders the rows as %s: %s   [%d of %d permutations]' % (list(bad_[0][0]), bad_[0][1], len(bad_), len(perms)), site_(fi_))
    run.ob('LA3.lu-kernels-exact', 'linalg.lu_factor :: 3 x 3 symbolic matrix, every row permutation chosen by the pivoting', not badp,
           'A x = b for all %d permutations' % len(perms) if not badp else
           'when the pivoting orders the rows as %s (P A = rows %s of A): %s   [%d of %d permutations]; the right-hand side must be permuted with P, not with its transpose'
           % (list(badp[0][0]), list(badp[0][0]), badp[0][1], len(badp), len(perms)), site_(ff))


# ====================================================================================== C20: crossing rule on order types
def wn2(m, run):
    """WN2: linalg.wn_poly touches the y coordinates only through comparisons and the x coordinates only through the sign of is_left: it is
    interpreted for every order type of (three vertex heights, query height) of a closed three-edge polygon and every assignment of
    sides to the edges; the result must be bool(sum over edges of [V_i.y <= P.y < V_i+1.y and P left] - [V_i+1.y <= P.y < V_i.y and P right])"""
    import itertools as it
    fi = m.func('linalg.wn_poly')
    bad = []
    n = 0
    for ys in it.product(range(3), repeat=3):
        for py in (0, 1, 2, 0.5, 1.5):
            for signs in list(it.product((1, -1), repeat=3)) + [(0, 0, 0)]:
                V = [[DEF(), Ord(ys[k])] for k in range(3)]
                V.append(V[0])
                P = [DEF(), Ord(py)]
                edges = {(id(V[k]), id(V[k + 1])): signs[k] for k in range(3)}

                def is_left(sk, node, a, b, c, _e=edges, _P=P):
                    if c is not _P:
                        raise Violation('WN2', 'is_left is asked about %r, not about the query point' % (c,), node)
                    if (id(a), id(b)) in _e:
                        return _e[(id(a), id(b))]
                    if (id(b), id(a)) in _e:
                        return -_e[(id(b), id(a))]
                    raise Violation('WN2', 'is_left is asked about a segment that is not an edge V[i] -> V[i+1] of the polygon', node)
                ab = dict(STD_ABSTRACTED)
                ab[('linalg', 'is_left')] = Py(is_left, 'is_left')
                sk = SK(m, ab)
                want = 0
                for k in range(3):
                    a, b = ys[k], ys[(k + 1) % 3]
                    if a <= py < b and signs[k] > 0:
                        want += 1
                    elif b <= py < a and signs[k] < 0:
                        want -= 1
                n += 1
                try:
                    out = sk.call(fi, [P, V], {})
                    why = None if out is bool(want) or out == bool(want) and isinstance(out, bool) else 'returns %r, the winding number is %d' % (out, want)
                except Violation as v:
                    why = '%s %s' % (v.msg, v.where())
                except Unsupported as ex:
                    raise AnalysisError('linalg.wn_poly: interpreter met an unsupported construct: %s' % ex)
                if why:
                    bad.append((ys, py, signs, why))
    run.ob('WN2.crossing-rule-on-order-types', 'linalg.wn_poly :: %d (height order type, side assignment) cases of a closed three-edge polygon' % n, not bad,
           'an edge counts when V[i].y <= P.y < V[i+1].y (upward, P left) or V[i+1].y <= P.y < V[i].y (downward, P right): start included, end excluded, both ways' if not bad else
           'vertex heights %s, query height %s, sides %s: %s   [%d of %d cases]; a vertex level with the query point is counted once, by the half-open rule applied the same way to '
           'upward and downward edges' % (list(bad[0][0]), bad[0][1], list(bad[0][2]), bad[0][3], len(bad), n), 'geomdl/linalg.py:%d in linalg.wn_poly' % fi.node.lineno)


def vx3(m, run, rule='VX3.voxelize-per-element'):
    """VX3: voxelize.voxelize interpreted on an abstract container of two elements, serial and parallel: element k's voxel grid is generated
    from element k's bounding box, filled from element k's evaluated points, by find_inouts_st when num_procs <= 1 and find_inouts_mp
    otherwise, with the same remaining options; the results are concatenated in element order"""
    fi = m.func('voxelize.voxelize')
    for procs in (1, 4):
        calls = []
        elems = []
        for k in range(2):
            b = Bag('rec:shape', bbox=('bbox', k), evalpts=[('pts', k)], dimension=3, pdimension=3)
            b._a['__iter__'] = [b]
            elems.append(b)
        cont = Bag('rec:container', dimension=3, pdimension=3, bbox=('bbox', 'container'), evalpts=[('pts', 'container')])
        cont._a['__iter__'] = elems
        ab = dict(STD_ABSTRACTED)
        ab[('_voxelize', 'generate_voxel_grid')] = Py(lambda sk, node, bbox, *a, **k: [('voxel', bbox, i) for i in range(2)], 'generate_voxel_grid')

        def finder(which):
            def f(sk, node, grid, pts_, *a, _w=which, **k):
                calls.append((_w, grid, pts_, a, dict(k)))
                return [('filled', v) for v in grid]
            return Py(f, which)
        ab[('_voxelize', 'find_inouts_st')] = finder('find_inouts_st')
        ab[('_voxelize', 'find_inouts_mp')] = finder('find_inouts_mp')
        sk = SK(m, ab)
        key = 'voxelize.voxelize :: container of two elements, num_procs=%d' % procs
        why = None
        try:
            out = sk.call(fi, [cont], {'num_procs': procs, 'padding': 0.25, 'grid_size': (2, 2, 2)})
            want_fn = 'find_inouts_mp' if procs > 1 else 'find_inouts_st'
            if len(calls) != 2:
                why = 'the in/out finder is called %d times for 2 elements' % len(calls)
            else:
                for k, (w, grid, pts_, a, kw) in enumerate(calls):
                    if w != want_fn:
                        why = 'num_procs=%d uses %s' % (procs, w)
                    elif [v[1] for v in grid] != [('bbox', k)] * 2:
                        why = 'the grid of element %d is generated from %s' % (k, sorted({str(v[1]) for v in grid}))
                    elif pts_ != [('pts', k)]:
                        why = 'the grid of element %d is filled from the evaluated points of %s: every element is voxelized from its own points' % (k, pts_[0][1] if pts_ and isinstance(pts_[0], tuple) else pts_)
                    elif kw.get('padding') != 0.25 or kw.get('num_procs') != procs or 'grid_size' in kw or a:
                        why = 'the finder receives the options %s %s; padding and num_procs are forwarded, grid_size and use_cubes are consumed' % (list(a), sorted(kw.items()))
                    if why:
                        break
            if why is None:
                g, f = out
                wg = [('voxel', ('bbox', k), i) for k in range(2) for i in range(2)]
                if g != wg or f != [('filled', v) for v in wg]:
                    why = 'the returned grid / filled lists are not the per-element results concatenated in element order'
        except Violation as v:
            why = '%s %s' % (v.msg, v.where())
        except Unsupported as ex:
            raise AnalysisError('%s: interpreter met an unsupported construct: %s' % (key, ex))
        run.ob(rule, key, why is None, 'each element: own bounding box, own points, same options, results concatenated' if why is None else why,
               'geomdl/voxelize.py:%d in voxelize.voxelize' % fi.node.lineno)


# ====================================================================================== C17: the two evaluator families cell by cell
def ev3(m, run):
    """EV3: the default and the alternative non-rational evaluators interpreted on the same abstract shape (labelled control points): for
    every degree, derivative order and span the two derivative tables have the same shape and every cell is computed from the same set
    of control points (or is the untouched zero fill in both)"""
    dmax = 3

    def table(cls, dd, prm, spans, order):
        sk = SK(m, dict(STD_ABSTRACTED))
        return sk.call(m.func('evaluators.%s.derivatives' % cls), [evaluator(cls, spans), dd, prm], {'deriv_order': order})

    def sig(cell):
        if isinstance(cell, list) and all(isinstance(c, Tok) for c in cell):
            return ('zero',) if all(c.kind == 'PH0' for c in cell) else ('pts', footprint(cell))
        return ('?', repr(cell)[:40])
    for a, b, pdim in (('CurveEvaluator', 'CurveEvaluator2', 1), ('SurfaceEvaluator', 'SurfaceEvaluator2', 2)):
        bad = []
        n = 0
        degs = [(p,) for p in range(1, dmax + 1)] if pdim == 1 else list(itertools.product(range(1, dmax + 1), repeat=2))
        for dg in degs:
            sizes = tuple(d + 2 + i for i, d in enumerate(dg))
            for order in range(0, max(dg) + 2):
                for spans in (list(dg), [s - 1 for s in sizes]):
                    n += 1
                    try:
                        outs = []
                        for cls in (a, b):
                            dd = datadict(pdim, dg, sizes, 3, False)
                            outs.append(table(cls, dd, DEF() if pdim == 1 else (DEF(), DEF()), spans, order))
                        ta, tb = outs
                        why = None
                        if pdim == 1:
                            sa_, sb_ = [sig(c) for c in ta], [sig(c) for c in tb]
                        else:
                            sa_, sb_ = [[sig(c) for c in r] for r in ta], [[sig(c) for c in r] for r in tb]
                            # only the cells k + l <= order are part of the result
                            sa_ = [[c if k + l <= order else None for l, c in enumerate(r)] for k, r in enumerate(sa_)]
                            sb_ = [[c if k + l <= order else None for l, c in enumerate(r)] for k, r in enumerate(sb_)]
                        if sa_ != sb_:
                            if pdim == 1:
                                k_ = next(i for i, (x, y) in enumerate(zip(sa_, sb_)) if x != y) if len(sa_) == len(sb_) else None
                                why = 'derivative %s differs' % k_ if k_ is not None else 'tables of %d and %d rows' % (len(sa_), len(sb_))
                            else:
                                cell = next(((k, l) for k, (r1, r2) in enumerate(zip(sa_, sb_)) for l, (x, y) in enumerate(zip(r1, r2)) if x != y), None)
                                if cell is None:
                                    why = 'tables of different shapes'
                                else:
                                    x, y = sa_[cell[0]][cell[1]], sb_[cell[0]][cell[1]]
                                    d = lambda s_: 'left at its zero fill' if s_ and s_[0] == 'zero' else ('computed from control points %s' % sorted(s_[1]) if s_ and s_[0] == 'pts' and s_[1] is not None else str(s_))
                                    why = 'S^(%d,%d) is %s by %s and %s by %s' % (cell[0], cell[1], d(x), a, d(y), b)
                    except Violation as v:
                        why = '%s %s' % (v.msg, v.where())
                    except Unsupported as ex:
                        raise AnalysisError('evaluators.%s / %s: interpreter met an unsupported construct: %s' % (a, b, ex))
                    if why:
                        bad.append((dg, order, spans, why))
        run.ob('EV3.evaluator-families-agree-cell-by-cell', 'evaluators.%s / %s :: %d (degree, order, span) cases' % (a, b, n), not bad,
               'same table shape, every derivative computed from the same control points' if not bad else
               'degree %s, order %d, span %s: %s   [%d of %d cases]' % (list(bad[0][0]), bad[0][1], bad[0][2], bad[0][3], len(bad), n), 'geomdl/evaluators.py')


# ====================================================================================== C02: alternative evaluators as exact polynomials
def a34s(m, run):
    """A34S: CurveEvaluator2 / SurfaceEvaluator2 .derivatives (A3.4 / A3.8) interpreted with the basis-function table and the derivative
    control points replaced by symbolic atoms: every derivative is exactly  sum_j N[j][p-k] PK[k][j]  (curve) or
    sum_i sum_j Nu[j][p-k] Nv[i][q-l] PKL[k][l][j][i]  (surface) for k <= min(order, p), l <= min(order - k, q), zero above the degrees,
    and the helpers are asked for the window (span - degree, span) of every direction"""
    from .skel import Sym
    from .poly import Poly
    bad_c, bad_s = [], []
    nc = ns = 0

    def ntable(tag, deg):
        return [[Sym('%s_%d_%d' % (tag, j, d)) if j <= d else None for d in range(deg + 1)] for j in range(deg + 1)]

    def zero(v):
        s = _as_sym(v)
        return s is not None and s.is_zero()
    # ---- curve
    fc = m.func('evaluators.CurveEvaluator2.derivatives')
    for p in (1, 2, 3):
        n = p + 3
        for order in range(0, p + 3):
            for span in (p, n - 1):
                nc += 1
                dd = datadict(1, (p,), (n,), 3, False)
                asked = {}

                def bfa(sk, node, degree, kv, sp, knot, _p=p, _dd=dd, _a=asked, _span=span):
                    if degree != _p or kv is not _dd['knotvector'][0] or sp != _span:
                        raise Violation('A34S', 'basis_function_all is asked for degree %r / span %r, the curve has degree %d and the span is %d' % (degree, sp, _p, _span), node)
                    return ntable('N', _p)

                def cdc(sk, node, dim, degree, kv, cp, *a, _p=p, _span=span, _a=asked, **k):
                    rs = k.get('rs', a[0] if a else None)
                    do = k.get('deriv_order', a[1] if len(a) > 1 else None)
                    _a['rs'], _a['do'] = tuple(rs), do
                    return [[[Sym('PK_%d_%d_%d' % (kk, j, c)) for c in range(dim)] if j <= _p - kk else None for j in range(_p + 1)] for kk in range(do + 1)]
                ab = dict(STD_ABSTRACTED)
                ab[('helpers', 'basis_function_all')] = Py(bfa, 'basis_function_all')
                ab[('helpers', 'curve_deriv_cpts')] = Py(cdc, 'curve_deriv_cpts')
                sk = SK(m, ab)
                sk.exact = True
                try:
                    out = sk.call(fc, [evaluator('CurveEvaluator2', [span]), dd, DEF()], {'deriv_order': order})
                    why = None
                    if asked.get('rs') != (span - p, span):
                        why = 'curve_deriv_cpts is asked for the window %r, the active control points are %r' % (asked.get('rs'), (span - p, span))
                    elif len(out) != order + 1:
                        why = 'table of %d rows for order %d' % (len(out), order)
                    for k in range(order + 1):
                        if why:
                            break
                        for c in range(3):
                            v = out[k][c]
                            if k <= min(order, p):
                                want = Poly()
                                for j in range(p - k + 1):
                                    want = want + Poly.atom('N_%d_%d' % (j, p - k)) * Poly.atom('PK_%d_%d_%d' % (k, j, c))
                                s = _as_sym(v)
                                if s is None or not s.same(Sym(want)):
                                    why = 'C^(%d)[%d] is %s, A3.4 gives %r' % (k, c, repr(v)[:120], want)
                                    break
                            elif not zero(v):
                                why = 'C^(%d) is not zero although %d exceeds the degree %d' % (k, k, p)
                                break
                except Violation as v:
                    why = '%s %s' % (v.msg, v.where())
                except Unsupported as ex:
                    raise AnalysisError('%s: interpreter met an unsupported construct: %s' % (fc.key, ex))
                if why:
                    bad_c.append(((p, order, span), why))
    run.ob('A34S.alternative-evaluator-exact', '%s :: %d (degree, order, span) cases' % (fc.key, nc), not bad_c,
           'every derivative is sum_j N[j][p-k] PK[k][j] as a polynomial identity' if not bad_c else
           '(degree, order, span) = %s: %s   [%d of %d cases]' % (bad_c[0][0], bad_c[0][1], len(bad_c), nc), 'geomdl/evaluators.py:%d in %s' % (fc.node.lineno, fc.key))
    # ---- surface
    fs = m.func('evaluators.SurfaceEvaluator2.derivatives')
    for p, q in itertools.product((1, 2, 3), repeat=2):
        nu, nv = p + 2, q + 3
        for order in range(0, max(p, q) + 2):
            for su, sv in ((p, q), (nu - 1, nv - 1)):
                ns += 1
                dd = datadict(2, (p, q), (nu, nv), 3, False)
                asked = {}

                def bfa(sk, node, degree, kv, sp, knot, _dd=dd, _pq=(p, q), _sp=(su, sv)):
                    d = 0 if kv is _dd['knotvector'][0] else (1 if kv is _dd['knotvector'][1] else None)
                    if d is None or degree != _pq[d] or sp != _sp[d]:
                        raise Violation('A34S', 'basis_function_all is asked for degree %r, span %r with the knot vector of direction %r: degree, knot vector and span of one direction go together'
                                        % (degree, sp, d), node)
                    return ntable('NU' if d == 0 else 'NV', _pq[d])

                def sdc(sk, node, dim, degree, kv, cp, size, *a, _pq=(p, q), _a=asked, **k):
                    _a['rs'], _a['ss'], do = tuple(k.get('rs', a[0] if a else ())), tuple(k.get('ss', a[1] if len(a) > 1 else ())), k.get('deriv_order', a[2] if len(a) > 2 else None)
                    _a['do'] = do
                    du_, dv_ = min(_pq[0], do), min(_pq[1], do)
                    return [[[[[Sym('PKL_%d_%d_%d_%d_%d' % (kk, ll, i, j, c)) for c in range(dim)] if i <= _pq[0] - kk and j <= _pq[1] - ll else None
                               for j in range(_pq[1] + 1)] for i in range(_pq[0] + 1)] if kk + ll <= do else None for ll in range(dv_ + 1)] for kk in range(du_ + 1)]
                ab = dict(STD_ABSTRACTED)
                ab[('helpers', 'basis_function_all')] = Py(bfa, 'basis_function_all')
                ab[('helpers', 'surface_deriv_cpts')] = Py(sdc, 'surface_deriv_cpts')
                sk = SK(m, ab)
                sk.exact = True
                try:
                    out = sk.call(fs, [evaluator('SurfaceEvaluator2', [su, sv]), dd, (DEF(), DEF())], {'deriv_order': order})
                    why = None
                    if asked.get('rs') != (su - p, su) or asked.get('ss') != (sv - q, sv):
                        why = 'surface_deriv_cpts is asked for the windows %r / %r, the active control points are %r / %r' % (asked.get('rs'), asked.get('ss'), (su - p, su), (sv - q, sv))
                    elif asked.get('do') is None or asked['do'] < order:
                        why = 'surface_deriv_cpts is asked for derivative control points up to order %r, order %d is evaluated' % (asked.get('do'), order)
                    elif len(out) != order + 1 or any(len(r) != order + 1 for r in out):
                        why = 'table is not (order+1) x (order+1)'
                    for k in range(order + 1):
                        for l in range(order + 1 - k):
                            if why:
                                break
                            for c in range(3):
                                v = out[k][l][c]
                                if k <= p and l <= q:
                                    want = Poly()
                                    for i in range(q - l + 1):
                                        for j in range(p - k + 1):
                                            want = want + Poly.atom('NU_%d_%d' % (j, p - k)) * Poly.atom('NV_%d_%d' % (i, q - l)) * Poly.atom('PKL_%d_%d_%d_%d_%d' % (k, l, j, i, c))
                                    s = _as_sym(v)
                                    if s is None or not s.same(Sym(want)):
                                        why = 'S^(%d,%d)[%d] is %s, A3.8 gives the double sum over Nu[j][%d] Nv[i][%d] PKL[%d][%d][j][i]' % (k, l, c, repr(v)[:140], p - k, q - l, k, l)
                                        break
                                elif not zero(v):
                                    why = 'S^(%d,%d) is not zero although an order exceeds the degrees (%d, %d)' % (k, l, p, q)
                                    break
                except Violation as v:
                    why = '%s %s' % (v.msg, v.where())
                except Unsupported as ex:
                    raise AnalysisError('%s: interpreter met an unsupported construct: %s' % (fs.key, ex))
                if why:
                    bad_s.append(((p, q, order, su, sv), why))
    run.ob('A34S.alternative-evaluator-exact', '%s :: %d (degrees, order, spans) cases' % (fs.key, ns), not bad_s,
           'every derivative is the double sum of A3.8 as a polynomial identity' if not bad_s else
           '(p, q, order, span_u, span_v) = %s: %s   [%d of %d cases]' % (bad_s[0][0], bad_s[0][1], len(bad_s), ns), 'geomdl/evaluators.py:%d in %s' % (fs.node.lineno, fs.key))


# ====================================================================================== C02: quotient rules as exact rational functions
def rq2(m, run):
    """RQ2: the rational derivative evaluators (A4.2 / A4.4) interpreted with the weighted derivatives A^(k), w^(k) handed up by the
    polynomial evaluator replaced by symbolic atoms and exact binomial coefficients: every returned derivative equals the quotient rule
    recursion as an identity of rational functions"""
    import math
    import operator as o
    from .skel import Sym
    from .poly import Poly
    binom = Py(lambda sk, node, k, i: float(math.comb(int(k), int(i))) if 0 <= i <= k else 0.0, 'binomial_coefficient')
    one = Sym(Poly.const(1))
    # ---- curve
    fc = m.func('evaluators.CurveEvaluatorRational.derivatives')
    bad = []
    import itertools as it
    orders = range(0, 4)
    cases = [(order, ()) for order in orders] + [(3, z) for r in (1, 2, 3) for z in it.combinations((1, 2, 3), r)]
    for order, wz in cases:
        CKw = [[Sym('A_%d_%d' % (k, c)) for c in range(3)] + [0.0 if k in wz else Sym('w_%d' % k)] for k in range(order + 1)]
        ab = dict(STD_ABSTRACTED)
        ab[('linalg', 'binomial_coefficient')] = binom
        ab[('method', 'evaluators.CurveEvaluator.derivatives')] = Py(lambda sk, node, *a, _t=CKw, **k: [list(r) for r in _t], 'CurveEvaluator.derivatives')
        sk = SK(m, ab)
        sk.exact = True
        dd = datadict(1, (2,), (5,), 3, True)
        try:
            out = sk.call(fc, [evaluator('CurveEvaluatorRational', [2]), dd, DEF()], {'deriv_order': order})
            why = None
            want = []
            for k in range(order + 1):
                row = []
                for c in range(3):
                    v = CKw[k][c]
                    for i in range(1, k + 1):
                        v = sk.arith(o.sub, v, sk.arith(o.mul, sk.arith(o.mul, float(math.comb(k, i)), CKw[i][3], None), want[k - i][c], None), None)
                    row.append(sk.arith(o.truediv, v, CKw[0][3], None))
                want.append(row)
            if len(out) != order + 1:
                why = 'table of %d rows for order %d' % (len(out), order)
            for k in range(order + 1):
                if why:
                    break
                if len(out[k]) < 3:
                    why = 'C^(%d) has %d coordinates' % (k, len(out[k]))
                for c in range(3):
                    s = _as_sym(out[k][c])
                    if s is None or not s.same(want[k][c]):
                        why = 'C^(%d)[%d] is %s; the quotient rule gives (A^(%d) - sum_i binom(%d, i) w^(i) C^(%d-i)) / w' % (k, c, repr(out[k][c])[:160], k, k, k)
                        break
        except Violation as v:
            why = '%s %s' % (v.msg, v.where())
        except Unsupported as ex:
            raise AnalysisError('%s: interpreter met an unsupported construct: %s' % (fc.key, ex))
        if why:
            bad.append((order, wz, why))
    run.ob('RQ2.quotient-rule-exact', '%s :: orders 0..%d, every pattern of vanishing weight derivatives at order 3' % (fc.key, max(orders)), not bad, 'A4.2 as an identity of rational functions' if not bad else
           'order %d%s: %s   [%d of %d cases]' % (bad[0][0], ' with w^(%s) = 0' % ','.join(map(str, bad[0][1])) if bad[0][1] else '', bad[0][2], len(bad), len(cases)), 'geomdl/evaluators.py:%d in %s' % (fc.node.lineno, fc.key))
    # ---- surface
    fs = m.func('evaluators.SurfaceEvaluatorRational.derivatives')
    bad = []
    orders = range(0, 4 if run.tier != 'thorough' else 5)
    wpos = [(k, l) for k in range(3) for l in range(3 - k) if (k, l) != (0, 0)]
    cases = [(order, ()) for order in orders] + [(2, z) for r in ((1, 2) if run.tier != 'thorough' else (1, 2, 3, 4, 5)) for z in it.combinations(wpos, r)]
    for order, wz in cases:
        T = [[[Sym('A_%d_%d_%d' % (k, l, c)) for c in range(3)] + [0.0 if (k, l) in wz else Sym('w_%d_%d' % (k, l))] if k + l <= order else [0.0, 0.0, 0.0, 0.0] for l in range(order + 1)] for k in range(order + 1)]
        ab = dict(STD_ABSTRACTED)
        ab[('linalg', 'binomial_coefficient')] = binom
        ab[('method', 'evaluators.SurfaceEvaluator.derivatives')] = Py(lambda sk, node, *a, _t=T, **k: [[list(c) for c in r] for r in _t], 'SurfaceEvaluator.derivatives')
        sk = SK(m, ab)
        sk.exact = True
        dd = datadict(2, (2, 2), (4, 5), 3, True)
        try:
            out = sk.call(fs, [evaluator('SurfaceEvaluatorRational', [2, 2]), dd, (DEF(), DEF())], {'deriv_order': order})
            why = None
            W = lambda k, l: T[k][l][3]
            mul = lambda *xs: __import__('functools').reduce(lambda a, b: sk.arith(o.mul, a, b, None), xs)
            sub = lambda a, b: sk.arith(o.sub, a, b, None)
            add = lambda a, b: sk.arith(o.add, a, b, None)
            want = {}
            for k in range(order + 1):
                for l in range(order + 1 - k):
                    for c in range(3):
                        v = T[k][l][c]
                        for j in range(1, l + 1):
                            v = sub(v, mul(float(math.comb(l, j)), W(0, j), want[(k, l - j, c)]))
                        for i in range(1, k + 1):
                            v = sub(v, mul(float(math.comb(k, i)), W(i, 0), want[(k - i, l, c)]))
                            v2 = Sym(Poly())
                            for j in range(1, l + 1):
                                v2 = add(v2, mul(float(math.comb(l, j)), W(i, j), want[(k - i, l - j, c)]))
                            v = sub(v, mul(float(math.comb(k, i)), v2))
                        want[(k, l, c)] = sk.arith(o.truediv, v, W(0, 0), None)
            if len(out) != order + 1 or any(len(r) != order + 1 for r in out):
                why = 'table is not (order+1) x (order+1)'
            for (k, l, c), w in sorted(want.items()):
                if why:
                    break
                s = _as_sym(out[k][l][c]) if len(out[k][l]) > c else None
                if s is None or not s.same(w):
                    why = 'S^(%d,%d)[%d] is %s; A4.4 gives (A^(k,l) - sum_j C(l,j) w^(0,j) S^(k,l-j) - sum_i C(k,i) (w^(i,0) S^(k-i,l) + sum_j C(l,j) w^(i,j) S^(k-i,l-j))) / w' % (
                        k, l, c, repr(out[k][l][c])[:120] if len(out[k][l]) > c else 'missing')
        except Violation as v:
            why = '%s %s' % (v.msg, v.where())
        except Unsupported as ex:
            raise AnalysisError('%s: interpreter met an unsupported construct: %s' % (fs.key, ex))
        if why:
            bad.append((order, wz, why))
    run.ob('RQ2.quotient-rule-exact', '%s :: orders 0..%d, %d patterns of vanishing weight derivatives at order 2' % (fs.key, max(orders), len(cases) - len(orders)), not bad,
           'A4.4 as an identity of rational functions for every S^(k,l), k + l <= order' if not bad else
           'order %d%s: %s   [%d of %d cases]' % (bad[0][0], ' with w^%s = 0' % (list(bad[0][1]),) if bad[0][1] else '', bad[0][2], len(bad), len(cases)), 'geomdl/evaluators.py:%d in %s' % (fs.node.lineno, fs.key))


def a36s(m, run):
    """A36S: CurveEvaluator / SurfaceEvaluator .derivatives (A3.2 / A3.6) interpreted with the basis-function derivative table and the
    control points replaced by symbolic atoms: C^(k) = sum_j ders[k][j] P[span-p+j];  S^(k,l) = sum_s dersV[l][s] sum_r dersU[k][r]
    P[span_u-p+r][span_v-q+s] exactly, for k <= min(order, p), l <= min(order-k, q); zero above the degrees"""
    from .skel import Sym
    from .poly import Poly

    def zero(v):
        s = _as_sym(v)
        return s is not None and s.is_zero()

    def dtable(tag, deg, n):
        return [[Sym('%s_%d_%d' % (tag, k, j)) for j in range(deg + 1)] for k in range(n + 1)]
    # ---- curve
    fc = m.func('evaluators.CurveEvaluator.derivatives')
    bad, nc = [], 0
    for p in (1, 2, 3):
        n = p + 3
        for order in range(0, p + 3):
            for span in (p, n - 1):
                nc += 1
                dd = datadict(1, (p,), (n,), 3, False)
                dd['control_points'] = tuple([Sym('P_%d_%d' % (i, c)) for c in range(3)] for i in range(n))

                def bfd(sk, node, degree, kv, sp, knot, order_, _p=p, _dd=dd, _span=span):
                    if degree != _p or kv is not _dd['knotvector'][0] or sp != _span:
                        raise Violation('A36S', 'basis_function_ders is asked for degree %r / span %r; the curve has degree %d and the span is %d' % (degree, sp, _p, _span), node)
                    return dtable('D', _p, order_)
                ab = dict(STD_ABSTRACTED)
                ab[('helpers', 'basis_function_ders')] = Py(bfd, 'basis_function_ders')
                sk = SK(m, ab)
                sk.exact = True
                try:
                    out = sk.call(fc, [evaluator('CurveEvaluator', [span]), dd, DEF()], {'deriv_order': order})
                    why = None if len(out) == order + 1 else 'table of %d rows for order %d' % (len(out), order)
                    for k in range(order + 1):
                        if why:
                            break
                        for c in range(3):
                            v = out[k][c]
                            if k <= p:
                                want = Poly()
                                for j in range(p + 1):
                                    want = want + Poly.atom('D_%d_%d' % (k, j)) * Poly.atom('P_%d_%d' % (span - p + j, c))
                                s = _as_sym(v)
                                if s is None or not s.same(Sym(want)):
                                    why = 'C^(%d)[%d] is %s, A3.2 gives sum_j ders[%d][j] P[span-p+j]' % (k, c, repr(v)[:140], k)
                                    break
                            elif not zero(v):
                                why = 'C^(%d) is not zero although %d exceeds the degree %d' % (k, k, p)
                                break
                except Violation as v:
                    why = '%s %s' % (v.msg, v.where())
                except Unsupported as ex:
                    raise AnalysisError('%s: interpreter met an unsupported construct: %s' % (fc.key, ex))
                if why:
                    bad.append(((p, order, span), why))
    run.ob('A36S.default-evaluator-exact', '%s :: %d (degree, order, span) cases' % (fc.key, nc), not bad, 'every derivative is sum_j ders[k][j] P[span-p+j] as a polynomial identity' if not bad else
           '(degree, order, span) = %s: %s   [%d of %d cases]' % (bad[0][0], bad[0][1], len(bad), nc), 'geomdl/evaluators.py:%d in %s' % (fc.node.lineno, fc.key))
    # ---- surface
    fs = m.func('evaluators.SurfaceEvaluator.derivatives')
    bad, ns = [], 0
    for p, q in itertools.product((1, 2, 3), repeat=2):
        nu, nv = p + 2, q + 3
        for order in range(0, max(p, q) + 2):
            for su, sv in ((p, q), (nu - 1, nv - 1)):
                ns += 1
                dd = datadict(2, (p, q), (nu, nv), 3, False)
                dd['control_points'] = tuple([Sym('P_%d_%d_%d' % (i // nv, i % nv, c)) for c in range(3)] for i in range(nu * nv))

                def bfd(sk, node, degree, kv, sp, knot, order_, _dd=dd, _pq=(p, q), _sp=(su, sv)):
                    d = 0 if kv is _dd['knotvector'][0] else (1 if kv is _dd['knotvector'][1] else None)
                    if d is None or degree != _pq[d] or sp != _sp[d]:
                        raise Violation('A36S', 'basis_function_ders is asked for degree %r, span %r with the knot vector of direction %r: degree, knot vector and span of one direction go together'
                                        % (degree, sp, d), node)
                    if order_ < min(_pq[d], 0):
                        raise Violation('A36S', 'negative derivative order', node)
                    return dtable('DU' if d == 0 else 'DV', _pq[d], order_)
                ab = dict(STD_ABSTRACTED)
                ab[('helpers', 'basis_function_ders')] = Py(bfd, 'basis_function_ders')
                sk = SK(m, ab)
                sk.exact = True
                try:
                    out = sk.call(fs, [evaluator('SurfaceEvaluator', [su, sv]), dd, (DEF(), DEF())], {'deriv_order': order})
                    why = None
                    if len(out) != order + 1 or any(len(r) != order + 1 for r in out):
                        why = 'table is not (order+1) x (order+1)'
                    for k in range(order + 1):
                        for l in range(order + 1 - k):
                            if why:
                                break
                            for c in range(3):
                                v = out[k][l][c]
                                if k <= p and l <= q:
                                    want = Poly()
                                    for s_ in range(q + 1):
                                        for r in range(p + 1):
                                            want = want + Poly.atom('DU_%d_%d' % (k, r)) * Poly.atom('DV_%d_%d' % (l, s_)) * Poly.atom('P_%d_%d_%d' % (su - p + r, sv - q + s_, c))
                                    s = _as_sym(v)
                                    if s is None or not s.same(Sym(want)):
                                        why = 'S^(%d,%d)[%d] is %s, A3.6 gives sum_s dersV[%d][s] sum_r dersU[%d][r] P[span_u-p+r][span_v-q+s]' % (k, l, c, repr(v)[:140], l, k)
                                        break
                                elif not zero(v):
                                    why = 'S^(%d,%d) is not zero although an order exceeds the degrees (%d, %d)' % (k, l, p, q)
                                    break
                except Violation as v:
                    why = '%s %s' % (v.msg, v.where())
                except Unsupported as ex:
                    raise AnalysisError('%s: interpreter met an unsupported construct: %s' % (fs.key, ex))
                if why:
                    bad.append(((p, q, order, su, sv), why))
    run.ob('A36S.default-evaluator-exact', '%s :: %d (degrees, order, spans) cases' % (fs.key, ns), not bad, 'every derivative is the double sum of A3.6 as a polynomial identity' if not bad else
           '(p, q, order, span_u, span_v) = %s: %s   [%d of %d cases]' % (bad[0][0], bad[0][1], len(bad), ns), 'geomdl/evaluators.py:%d in %s' % (fs.node.lineno, fs.key))


# ====================================================================================== C02: hodographs on recorder shapes
def rec_shape(cls, made, attrs, opts=None, origin='input'):
    """recorder standing for a BSpline shape: plain attributes, remembers how it came to be (deep copy of / constructed with which
    options) so that a rule can ask whether a derived shape keeps the settings of its input"""
    b = Bag('rec:' + cls[1], **attrs)
    b._a['__isa__'] = (cls,)
    b._a['_origin'] = origin
    b._a['_opts'] = dict(opts or {})

    def dc(x):
        c = rec_shape(cls, made, {k: deepcopy_plain(v) for k, v in x._a.items() if not k.startswith('__') and k not in ('_origin', '_opts')}, x._a['_opts'], 'deepcopy')
        return c

    def ctor(sk, node, *a, **k):
        return rec_shape(cls, made, {}, dict(k), 'constructed')
    b._a['__deepcopy__'] = dc
    b._a['__class__'] = Py(ctor, '__class__')
    made.append(b)
    return b


def deepcopy_plain(v):
    if isinstance(v, list):
        return [deepcopy_plain(x) for x in v]
    if isinstance(v, dict):
        return {k: deepcopy_plain(x) for k, x in v.items()}
    return v


def hd3(m, run):
    """HD3: operations.derivative_curve / derivative_surface interpreted on a recorder shape created with normalize_kv=False, the derivative
    control point helper replaced by a labelled table: every hodograph keeps the parametrisation of its input (it is a deep copy of the
    input or is constructed with the input's normalize_kv), lowers the degree and drops the end knots in the differentiated directions only,
    and takes the block of the derivative control points of its own order without the last row / column of a differentiated direction"""
    def L(*lab):
        return Tok('DEF', dep=frozenset([lab]))

    def labs(x):
        return [sorted(v.dep)[0] if isinstance(v, Tok) and v.dep and len(v.dep) == 1 else None for v in x] if isinstance(x, (list, tuple)) else None

    def keeps(b):
        if b._a['_origin'] == 'deepcopy':
            return True
        if b._a['_origin'] == 'constructed':
            return b._a['_opts'].get('normalize_kv', True) is False
        return False
    # ---- curve
    fc = m.func('operations.derivative_curve')
    p, n = 3, 6
    made = []
    kv = [L('kv', i) for i in range(n + p + 1)]
    obj = rec_shape(('BSpline', 'Curve'), made, dict(degree=p, knotvector=kv, ctrlpts=pts(n, 3, labelled=True), ctrlpts_size=n, dimension=3, rational=False, delta=0.01,
                                                     pdimension=1, _kv_normalize=False, sample_size=7), {'normalize_kv': False})
    asked = {}

    def cdc(sk, node, dim, degree, kv_, cp, *a, **k):
        asked.update(degree=degree, kv=kv_, rs=tuple(k.get('rs', a[0] if a else ())), do=k.get('deriv_order', a[1] if len(a) > 1 else None))
        return [[[L('PK', kk, j, c) for c in range(3)] for j in range(n)] for kk in range(asked['do'] + 1)]
    ab = dict(STD_ABSTRACTED)
    ab[('helpers', 'curve_deriv_cpts')] = Py(cdc, 'curve_deriv_cpts')
    sk = SK(m, ab)
    why = None
    try:
        out = sk.call(fc, [obj], {})
        if not isinstance(out, Bag) or out is obj:
            why = 'does not return a new shape'
        elif asked.get('degree') != p or asked.get('kv') is not kv or asked.get('rs') != (0, n - 1) or (asked.get('do') or 0) < 1:
            why = 'curve_deriv_cpts is not asked for the first derivative control points of the whole curve (degree, knot vector, window (0, n-1)): %r' % ({k: v for k, v in asked.items() if k != 'kv'},)
        elif not keeps(out):
            why = 'the hodograph is constructed with the options %r: an input built with normalize_kv=False is re-parametrised onto [0, 1]' % (out._a['_opts'],)
        elif out._a.get('degree') != p - 1:
            why = 'the hodograph has degree %r, expected %d' % (out._a.get('degree'), p - 1)
        elif labs(out._a.get('knotvector')) != [('kv', i) for i in range(1, n + p)]:
            why = 'the hodograph knot vector is not the input knot vector without its first and last knot'
        else:
            cp = out._a.get('ctrlpts')
            got = [labs(pt) for pt in cp] if isinstance(cp, list) else None
            if got != [[('PK', 1, j, c) for c in range(3)] for j in range(n - 1)]:
                why = 'the hodograph control points are not the first-derivative control points PK[1][0 .. n-2]'
    except Violation as v:
        why = '%s %s' % (v.msg, v.where())
    except Unsupported as ex:
        raise AnalysisError('%s: interpreter met an unsupported construct: %s' % (fc.key, ex))
    run.ob('HD3.hodograph-on-recorder-shape', fc.key, why is None, 'keeps the parametrisation; degree p-1, knots [1:-1], control points PK[1][0:-1]' if why is None else why,
           'geomdl/operations.py:%d in %s' % (fc.node.lineno, fc.key))
    # ---- surface
    fs = m.func('operations.derivative_surface')
    p, q, nu, nv = 3, 2, 5, 4
    made = []
    kvu, kvv = [L('ku', i) for i in range(nu + p + 1)], [L('kv', i) for i in range(nv + q + 1)]
    obj = rec_shape(('BSpline', 'Surface'), made, dict(degree=[p, q], degree_u=p, degree_v=q, knotvector=[kvu, kvv], knotvector_u=kvu, knotvector_v=kvv,
                                                       ctrlpts=pts(nu * nv, 3, labelled=True), cpsize=[nu, nv], ctrlpts_size_u=nu, ctrlpts_size_v=nv, dimension=3,
                                                       rational=False, delta=[0.01, 0.01], pdimension=2, _kv_normalize=False), {'normalize_kv': False})
    asked = {}

    def sdc(sk, node, dim, degree, kv_, cp, size, *a, **k):
        asked.update(degree=list(degree), kvs=kv_, rs=tuple(k.get('rs', a[0] if a else ())), ss=tuple(k.get('ss', a[1] if len(a) > 1 else ())), do=k.get('deriv_order', a[2] if len(a) > 2 else None))
        return [[[[[L('PKL', kk, ll, i, j, c) for c in range(3)] for j in range(nv)] for i in range(nu)] for ll in range(3)] for kk in range(3)]
    ab = dict(STD_ABSTRACTED)
    ab[('helpers', 'surface_deriv_cpts')] = Py(sdc, 'surface_deriv_cpts')
    sk = SK(m, ab)
    why = None
    try:
        out = sk.call(fs, [obj], {})
        if not isinstance(out, (tuple, list)) or len(out) != 3:
            why = 'does not return three shapes'
        elif asked.get('degree') != [p, q] or asked.get('rs') != (0, nu - 1) or asked.get('ss') != (0, nv - 1) or (asked.get('do') or 0) < 2 \
                or not (len(asked.get('kvs', ())) == 2 and asked['kvs'][0] is kvu and asked['kvs'][1] is kvv):
            why = 'surface_deriv_cpts is not asked for the derivative control points of the whole surface up to order 2'
        else:
            for name, s, (du, dv) in zip(('S_u', 'S_v', 'S_uv'), out, ((1, 0), (0, 1), (1, 1))):
                if not isinstance(s, Bag) or s is obj:
                    why = '%s is not a new shape' % name
                elif not keeps(s):
                    why = '%s is constructed with the options %r: an input built with normalize_kv=False is re-parametrised onto [0, 1]' % (name, s._a['_opts'])
                elif (s._a.get('degree_u'), s._a.get('degree_v')) != (p - du, q - dv):
                    why = '%s has degrees (%r, %r), expected (%d, %d)' % (name, s._a.get('degree_u'), s._a.get('degree_v'), p - du, q - dv)
                elif labs(s._a.get('knotvector_u')) != [('ku', i) for i in range(du, nu + p + 1 - du)] or labs(s._a.get('knotvector_v')) != [('kv', i) for i in range(dv, nv + q + 1 - dv)]:
                    why = '%s: the end knots are dropped exactly in the differentiated direction(s)' % name
                else:
                    g = s._a.get('ctrlpts2d')
                    got = [[labs(pt) for pt in row] for row in g] if isinstance(g, list) and all(isinstance(r, list) for r in g) else None
                    want = [[[('PKL', du, dv, i, j, c) for c in range(3)] for j in range(nv - dv)] for i in range(nu - du)]
                    if got != want:
                        why = '%s: the control point net is not PKL[%d][%d] without the last %s' % (name, du, dv, ' / '.join((['row'] if du else []) + (['column'] if dv else [])))
                if why:
                    break
    except Violation as v:
        why = '%s %s' % (v.msg, v.where())
    except Unsupported as ex:
        raise AnalysisError('%s: interpreter met an unsupported construct: %s' % (fs.key, ex))
    run.ob('HD3.hodograph-on-recorder-shape', fs.key, why is None, 'S_u, S_v, S_uv keep the parametrisation; degrees, knots and nets of their own differentiated directions' if why is None else why,
           'geomdl/operations.py:%d in %s' % (fs.node.lineno, fs.key))


# ====================================================================================== C07: decomposition on recorder shapes
def dc2(m, run):
    """DC2: operations.decompose_curve / decompose_surface interpreted on recorder shapes whose knots are order tokens (repeated interior
    knots included), the split functions replaced by stubs that cut the knot vector of their own direction at the requested parameter:
    every distinct interior knot of a requested direction is split at exactly once, in ascending order, on the piece that still contains
    it; other directions are never split; the pieces are returned in parameter order (u-major for 'uv'), the input is never handed to a split
    and never returned as a piece (a shape without interior knots included)"""
    def kvec(p, interior):
        return [Ord(0)] * (p + 1) + [Ord(r) for r in interior] + [Ord(max(interior) + 1 if interior else 1)] * (p + 1)

    def ranks(kv):
        return [k.rank for k in kv]

    # ---- curve
    fc = m.func('operations.decompose_curve')
    bad = []
    cases = [(2, []), (2, [1]), (3, [1, 2, 3]), (3, [1, 2, 2, 3]), (3, [1, 1, 1]), (2, [1, 1, 2, 2])]
    for p, interior, renorm in [(p_, i_, r_) for p_, i_ in cases for r_ in (False, True)]:
        made, calls = [], []
        kv0 = kvec(p, interior)
        obj = rec_shape(('BSpline', 'Curve'), made, dict(degree=p, knotvector=kv0, _okv=ranks(kv0), pdimension=1, rational=False, dimension=3), {})

        def split_curve(sk, node, crv, *a, _p=p, _renorm=renorm, **k):
            prm = k.get('param', a[0] if a else None)
            if not isinstance(prm, Ord):
                raise Violation('DC2', 'split_curve is asked to split at %r, not at a knot of the curve' % (prm,), node)
            kv, okv = crv._a['knotvector'], crv._a['_okv']
            at = [i_ for i_, x in enumerate(kv) if x.rank == prm.rank]
            if not at:
                raise Violation('DC2', 'split_curve is asked to split the remaining piece at %s, which is not one of its knots %s%s' % (
                    prm.rank, [str(r_) for r_ in ranks(kv)], ' (the pieces of a normalising shape have re-normalised knot vectors: the next knot has to be read from the piece)' if _renorm else ''), node)
            calls.append((crv, Ord(okv[at[0]])))
            if not (kv[0].rank < prm.rank < kv[-1].rank):
                raise Violation('DC2', 'split_curve is asked to split at the edge of the domain of the remaining piece (knot ranks %s, parameter rank %s): a repeated interior knot is consumed by one split'
                                % (ranks(kv), prm.rank), node)
            lo_ = [i_ for i_, x in enumerate(kv) if x.rank < prm.rank]
            hi_ = [i_ for i_, x in enumerate(kv) if x.rank > prm.rank]
            o_ = okv[at[0]]

            def piece(rk, ok):
                if _renorm:
                    a_, b_ = rk[0], rk[-1]
                    rk = [Fraction(r_ - a_) / Fraction(b_ - a_) for r_ in rk]
                return rec_shape(('BSpline', 'Curve'), made, dict(crv._a, knotvector=[Ord(r_) for r_ in rk], _okv=list(ok)), {}, 'split')
            from fractions import Fraction
            left = piece([kv[i_].rank for i_ in lo_] + [prm.rank] * (_p + 1), [okv[i_] for i_ in lo_] + [o_] * (_p + 1))
            right = piece([prm.rank] * (_p + 1) + [kv[i_].rank for i_ in hi_], [o_] * (_p + 1) + [okv[i_] for i_ in hi_])
            return [left, right]
        ab = dict(STD_ABSTRACTED)
        ab[('operations', 'split_curve')] = Py(split_curve, 'split_curve')
        sk = SK(m, ab)
        why = None
        try:
            out = sk.call(fc, [obj], {})
            distinct = sorted(set(interior))
            if any(c is obj for c, _ in calls):
                why = 'the input curve itself is handed to split_curve (the work is done on a copy)'
            elif [prm.rank for _, prm in calls] != distinct:
                why = 'splits at the knot ranks %s, the distinct interior knots are %s' % ([prm.rank for _, prm in calls], distinct)
            elif not isinstance(out, list) or len(out) != len(distinct) + 1:
                why = '%r pieces for %d distinct interior knots' % (len(out) if isinstance(out, list) else out, len(distinct))
            else:
                bounds = [0] + distinct + [max(interior) + 1 if interior else 1]
                for i, piece in enumerate(out):
                    kv = piece._a['_okv']
                    if (kv[0], kv[-1]) != (bounds[i], bounds[i + 1]) or any(kv[0] < x < kv[-1] for x in kv):
                        why = 'piece %d spans the knot ranks %s; expected the Bezier segment [%s, %s]' % (i, kv, bounds[i], bounds[i + 1])
                        break
                if why is None and any(piece is obj for piece in out):
                    why = 'the input curve itself is returned as a piece: whoever edits the pieces (degree_operations elevates each of them in place) edits the input'
        except Violation as v:
            why = '%s %s' % (v.msg, v.where())
        except Unsupported as ex:
            raise AnalysisError('%s: interpreter met an unsupported construct: %s' % (fc.key, ex))
        if why:
            bad.append(((p, interior), why + (' [pieces re-normalise their knot vectors]' if renorm else '')))
    run.ob('DC2.decomposition-on-recorder-shapes', '%s :: %d knot patterns (simple and repeated interior knots), pieces keeping / re-normalising their knots' % (fc.key, len(cases)), not bad,
           'one split per distinct interior knot, ascending, on the remaining piece; Bezier segments in parameter order' if not bad else
           'degree %d, interior knot ranks %s: %s   [%d of %d cases]' % (bad[0][0][0], bad[0][0][1], bad[0][1], len(bad), 2 * len(cases)), 'geomdl/operations.py:%d in %s' % (fc.node.lineno, fc.key))
    # ---- surface
    fs = m.func('operations.decompose_surface')
    bad = []
    scases = [((2, 1), ([1, 2], [1])), ((2, 2), ([1, 1], [])), ((1, 3), ([], [1, 2, 2])), ((2, 2), ([1], [1, 2, 3]))]
    n = 0
    for (p, q), (iu, iv) in scases:
        for ddir, renorm in [(d_, r_) for d_ in ('u', 'v', 'uv', None) for r_ in (False, True)]:
            n += 1
            made, calls = [], []
            kvs0 = [kvec(p, iu), kvec(q, iv)]
            obj = rec_shape(('BSpline', 'Surface'), made, dict(degree=[p, q], degree_u=p, degree_v=q, knotvector=kvs0, knotvector_u=kvs0[0], knotvector_v=kvs0[1],
                                                               _okv=[ranks(kvs0[0]), ranks(kvs0[1])], pdimension=2, rational=False, dimension=3), {})

            def splitter(d):
                def f(sk, node, srf, *a, _d=d, _renorm=renorm, **k):
                    from fractions import Fraction
                    prm = k.get('param', a[0] if a else None)
                    calls.append((_d, srf, prm))
                    kvs, okvs = srf._a['knotvector'], srf._a['_okv']
                    kv, okv = kvs[_d], okvs[_d]
                    deg = srf._a['degree'][_d]
                    at = [i_ for i_, x in enumerate(kv) if isinstance(prm, Ord) and x.rank == prm.rank]
                    if not at or not (kv[0].rank < prm.rank < kv[-1].rank):
                        raise Violation('DC2', 'split_surface_%s is asked to split at %r; the %s-knots of that piece have the ranks %s%s' % (
                            'uv'[_d], prm, 'uv'[_d], [str(r_) for r_ in ranks(kv)], ' (the pieces of a normalising shape have re-normalised knot vectors: the next knot has to be read from the piece)' if _renorm else ''), node)
                    lo_ = [i_ for i_, x in enumerate(kv) if x.rank < prm.rank]
                    hi_ = [i_ for i_, x in enumerate(kv) if x.rank > prm.rank]
                    o_ = okv[at[0]]

                    def mk(rk, ok):
                        if _renorm:
                            a_, b_ = rk[0], rk[-1]
                            rk = [Fraction(r_ - a_) / Fraction(b_ - a_) for r_ in rk]
                        nk = [Ord(r_) for r_ in rk]
                        nkv = [nk if i == _d else list(kvs[i]) for i in range(2)]
                        nok = [list(ok) if i == _d else list(okvs[i]) for i in range(2)]
                        return rec_shape(('BSpline', 'Surface'), made, dict(srf._a, knotvector=nkv, knotvector_u=nkv[0], knotvector_v=nkv[1], _okv=nok), {}, 'split')
                    return [mk([kv[i_].rank for i_ in lo_] + [prm.rank] * (deg + 1), [okv[i_] for i_ in lo_] + [o_] * (deg + 1)),
                            mk([prm.rank] * (deg + 1) + [kv[i_].rank for i_ in hi_], [o_] * (deg + 1) + [okv[i_] for i_ in hi_])]
                return Py(f, 'split_surface_' + 'uv'[d])
            ab = dict(STD_ABSTRACTED)
            ab[('operations', 'split_surface_u')] = splitter(0)
            ab[('operations', 'split_surface_v')] = splitter(1)
            sk = SK(m, ab)
            why = None
            try:
                out = sk.call(fs, [obj], {} if ddir is None else {'decompose_dir': ddir})
                want_dirs = 'uv' if ddir is None else ddir
                du, dv = sorted(set(iu)) if 'u' in want_dirs else [], sorted(set(iv)) if 'v' in want_dirs else []
                bu = [0] + du + [max(iu) + 1 if iu else 1]
                bv = [0] + dv + [max(iv) + 1 if iv else 1]
                if any(s is obj for _, s, _ in calls):
                    why = 'the input surface itself is handed to a split function (the work is done on a copy)'
                elif 'u' not in want_dirs and any(d == 0 for d, _, _ in calls):
                    why = "decompose_dir=%r splits along u" % ddir
                elif 'v' not in want_dirs and any(d == 1 for d, _, _ in calls):
                    why = "decompose_dir=%r splits along v" % ddir
                elif not isinstance(out, list) or len(out) != (len(bu) - 1) * (len(bv) - 1):
                    why = "decompose_dir=%r returns %r patches; %d x %d Bezier patches expected" % (ddir, len(out) if isinstance(out, list) else out, len(bu) - 1, len(bv) - 1)
                else:
                    k_ = 0
                    for a in range(len(bu) - 1):
                        for b in range(len(bv) - 1):
                            ku, kv_ = out[k_]._a['_okv']
                            if (ku[0], ku[-1], kv_[0], kv_[-1]) != (bu[a], bu[a + 1], bv[b], bv[b + 1]):
                                why = "decompose_dir=%r: patch %d spans u ranks [%s, %s] x v ranks [%s, %s]; expected [%s, %s] x [%s, %s] (u-major order)" % (
                                    ddir, k_, ku[0], ku[-1], kv_[0], kv_[-1], bu[a], bu[a + 1], bv[b], bv[b + 1])
                                break
                            k_ += 1
                        if why:
                            break
                    if why is None and any(piece is obj for piece in out):
                        why = 'decompose_dir=%r: the input surface itself is returned as a patch: whoever edits the patches edits the input' % ddir
            except Violation as v:
                why = '%s %s' % (v.msg, v.where())
            except Unsupported as ex:
                raise AnalysisError('%s: interpreter met an unsupported construct: %s' % (fs.key, ex))
            if why:
                bad.append((((p, q), (iu, iv), ddir), why + (' [pieces re-normalise their knot vectors]' if renorm else '')))
    run.ob('DC2.decomposition-on-recorder-shapes', '%s :: %d (knot pattern, decompose_dir) cases' % (fs.key, n), not bad,
           "only the requested directions are split, once per distinct interior knot; patches in u-major parameter order" if not bad else
           'degrees %s, interior knot ranks %s: %s   [%d of %d cases]' % (bad[0][0][0], bad[0][0][1], bad[0][1], len(bad), n), 'geomdl/operations.py:%d in %s' % (fs.node.lineno, fs.key))


# ====================================================================================== C08: degree elevation / reduction exactly
def el2(m, run):
    """EL2: helpers.degree_elevation interpreted on symbolic control points with exact binomials and exact rational arithmetic: every new
    point is sum_j C(p,j) C(t,i-j) / C(p+t,i) P_j (Eq. 5.36) for degrees 1..4 and counts 1..3;  helpers.degree_reduction applied to the exact
    elevation of a symbolic degree-(p-1) polygon gives that polygon back, for p = 2..7 (Eqs. 5.41 / 5.42 on a degree-reducible input)"""
    import math
    from fractions import Fraction
    from .skel import Sym
    from .poly import Poly
    binom = Py(lambda sk, node, k, i: Fraction(math.comb(int(k), int(i))) if 0 <= i <= k else Fraction(0), 'binomial_coefficient')
    ab = dict(STD_ABSTRACTED)
    ab[('linalg', 'binomial_coefficient')] = binom

    def elevate(P, p, t):
        out = []
        for i in range(p + t + 1):
            row = []
            for c in range(len(P[0])):
                acc = Poly()
                for j in range(max(0, i - t), min(p, i) + 1):
                    acc = acc + P[j][c] * (Fraction(math.comb(p, j) * math.comb(t, i - j), math.comb(p + t, i)))
                row.append(acc)
            out.append(row)
        return out
    fe = m.func('helpers.degree_elevation')
    bad, n = [], 0
    for p in range(1, 5):
        for t in range(1, 4):
            n += 1
            P = [[Poly.atom('P_%d_%d' % (j, c)) for c in range(2)] for j in range(p + 1)]
            sk = SK(m, ab)
            sk.exact = True
            try:
                out = sk.call(fe, [p, [[Sym(x) for x in row] for row in P]], {'num': t})
                want = elevate(P, p, t)
                why = None
                if not isinstance(out, list) or len(out) != p + t + 1:
                    why = '%r points, expected %d' % (len(out) if isinstance(out, list) else out, p + t + 1)
                else:
                    for i in range(p + t + 1):
                        for c in range(2):
                            s = _as_sym(out[i][c])
                            if s is None or not s.same(Sym(want[i][c])):
                                why = 'Q_%d[%d] is %s, Eq. 5.36 gives %r' % (i, c, repr(out[i][c])[:140], want[i][c])
                                break
                        if why:
                            break
            except Violation as v:
                why = '%s %s' % (v.msg, v.where())
            except Unsupported as ex:
                raise AnalysisError('%s: interpreter met an unsupported construct: %s' % (fe.key, ex))
            if why:
                bad.append(((p, t), why))
    run.ob('EL2.elevation-reduction-exact', '%s :: degree 1..4 x count 1..3' % fe.key, not bad, 'Eq. 5.36 as a polynomial identity in the control points' if not bad else
           'degree %d elevated %d times: %s   [%d of %d cases]' % (bad[0][0][0], bad[0][0][1], bad[0][1], len(bad), n), 'geomdl/helpers.py:%d in %s' % (fe.node.lineno, fe.key))
    # polygons of rows of points (the per-direction use on surfaces and volumes): the same identity cell by cell, reduction inverts it
    badr, nr_ = [], 0
    for p in (1, 2, 3):
        for t in (1, 2):
            nr_ += 1
            R = [[[Poly.atom('R_%d_%d_%d' % (j, r, c)) for c in range(2)] for r in range(3)] for j in range(p + 1)]          # (rows of three points of two coordinates)
            sk = SK(m, ab)
            sk.exact = True
            try:
                out = sk.call(fe, [p, [[[Sym(x) for x in pt] for pt in row] for row in R]], {'num': t})
                why = None
                if not isinstance(out, list) or len(out) != p + t + 1:
                    why = '%r rows, expected %d' % (len(out) if isinstance(out, list) else out, p + t + 1)
                else:
                    for r in range(3):
                        want = elevate([R[j][r] for j in range(p + 1)], p, t)
                        for i in range(p + t + 1):
                            for c in range(2):
                                try:
                                    s = _as_sym(out[i][r][c])
                                except (IndexError, TypeError):
                                    s = None
                                if s is None or not s.same(Sym(want[i][c])):
                                    why = 'row %d point %d coordinate %d is not the Eq. 5.36 combination of the corresponding points of the input rows' % (i, r, c)
                                    break
                            if why:
                                break
                        if why:
                            break
                if why is None and t == 1 and p + 1 >= 2:
                    sk2 = SK(m, ab)
                    sk2.exact = True
                    back = sk2.call(m.func('helpers.degree_reduction'), [p + 1, out], {})
                    for j in range(p + 1):
                        for r in range(3):
                            for c in range(2):
                                s = _as_sym(back[j][r][c])
                                if s is None or not s.same(Sym(R[j][r][c])):
                                    why = 'reducing the elevated rows does not give the rows back (row %d, point %d)' % (j, r)
            except Violation as v:
                why = '%s %s' % (v.msg, v.where())
            except Unsupported as ex:
                raise AnalysisError('%s (rows of points): interpreter met an unsupported construct: %s' % (fe.key, ex))
            if why:
                badr.append(((p, t), why))
    run.ob('EL2.elevation-reduction-exact', '%s :: polygons of rows of points, degree 1..3 x count 1..2' % fe.key, not badr, 'Eq. 5.36 cell by cell on rows of points; reduction inverts it' if not badr else
           'degree %d elevated %d times on rows of points: %s   [%d of %d cases]' % (badr[0][0][0], badr[0][0][1], badr[0][1], len(badr), nr_), 'geomdl/helpers.py:%d in %s' % (fe.node.lineno, fe.key))
    # inadmissible requests are rejected: a count that is not positive, a polygon that is not a Bezier polygon of the stated degree
    rej = []
    for what, args, kw in (('num = 0', [2, [[Sym('a%d' % i), Sym('b%d' % i)] for i in range(3)]], {'num': 0}),
                           ('num = -1', [2, [[Sym('a%d' % i), Sym('b%d' % i)] for i in range(3)]], {'num': -1}),
                           ('4 points for degree 2', [2, [[Sym('a%d' % i), Sym('b%d' % i)] for i in range(4)]], {'num': 1})):
        sk = SK(m, ab)
        sk.exact = True
        try:
            sk.call(fe, args, kw)
            rej.append('%s is accepted' % what)
        except Violation as v:
            if v.rule != 'RAISE':
                rej.append('%s fails with `%s` instead of being rejected' % (what, v.msg[:60]))
        except Unsupported as ex:
            raise AnalysisError('%s: interpreter met an unsupported construct: %s' % (fe.key, ex))
    run.ob('EL2.elevation-reduction-exact', '%s :: inadmissible requests' % fe.key, not rej, 'non-positive counts and non-Bezier polygons are rejected' if not rej else
           '; '.join(rej) + ': the request must be rejected, not silently replaced by another one', 'geomdl/helpers.py:%d in %s' % (fe.node.lineno, fe.key))
    fr = m.func('helpers.degree_reduction')
    rej = []
    for what, args in (('degree 1', [1, [[Sym('a%d' % i), Sym('b%d' % i)] for i in range(2)]]),
                       ('3 points for degree 3', [3, [[Sym('a%d' % i), Sym('b%d' % i)] for i in range(3)]]),
                       ('5 points for degree 3', [3, [[Sym('a%d' % i), Sym('b%d' % i)] for i in range(5)]])):
        sk = SK(m, ab)
        sk.exact = True
        try:
            sk.call(fr, args, {})
            rej.append('%s is accepted' % what)
        except Violation as v:
            if v.rule != 'RAISE':
                rej.append('%s fails with `%s` instead of being rejected' % (what, v.msg[:60]))
        except Unsupported as ex:
            raise AnalysisError('%s: interpreter met an unsupported construct: %s' % (fr.key, ex))
    run.ob('EL2.elevation-reduction-exact', '%s :: inadmissible requests' % fr.key, not rej, 'degrees below 2 and non-Bezier polygons are rejected' if not rej else
           '; '.join(rej) + ': the request must be rejected', 'geomdl/helpers.py:%d in %s' % (fr.node.lineno, fr.key))
    bad, n = [], 0
    for p in range(2, 8):
        n += 1
        P = [[Poly.atom('P_%d_%d' % (j, c)) for c in range(2)] for j in range(p)]
        Q = elevate(P, p - 1, 1)
        sk = SK(m, ab)
        sk.exact = True
        try:
            out = sk.call(fr, [p, [[Sym(x) for x in row] for row in Q]], {})
            why = None
            if not isinstance(out, list) or len(out) != p:
                why = '%r points, expected %d' % (len(out) if isinstance(out, list) else out, p)
            else:
                for i in range(p):
                    for c in range(2):
                        s = _as_sym(out[i][c])
                        if s is None or not s.same(Sym(P[i][c])):
                            why = 'point %d of the reduced polygon is %s, the polygon that was elevated has %r there' % (i, repr(out[i][c])[:160], P[i][c])
                            break
                    if why:
                        break
        except Violation as v:
            why = '%s %s' % (v.msg, v.where())
        except Unsupported as ex:
            raise AnalysisError('%s: interpreter met an unsupported construct: %s' % (fr.key, ex))
        if why:
            bad.append((p, why))
    run.ob('EL2.elevation-reduction-exact', '%s :: degrees 2..7 on exactly reducible polygons' % fr.key, not bad, 'reduce(elevate(P)) = P as a polynomial identity' if not bad else
           'degree %d: %s   [%d of %d degrees]' % (bad[0][0], bad[0][1], len(bad), n), 'geomdl/helpers.py:%d in %s' % (fr.node.lineno, fr.key))


# ====================================================================================== C17: serial and parallel variants on abstract inputs
def pool_stub(record):
    """a process pool whose map applies the function to every item in order (the contract of multiprocessing.Pool.map) and records its use"""
    pool = Bag('rec:pool')

    def pmap(sk, node, f, items, *a, **k):
        items = list(items)
        record.append(('map', len(items)))
        return [sk.apply(f, [x], {}, node) for x in items]
    pool._a['map'] = Py(pmap, 'pool.map')
    pool._a['__enter__'] = Py(lambda sk, node: pool, '__enter__')
    return pool


def ag52(m, run, rule='AG5.serial-parallel'):
    """AG52: _voxelize.find_inouts_st and find_inouts_mp interpreted on the same abstract voxel grid (sizes not divisible by the number of
    processes included) with the point-in-voxel predicate replaced by a recorder: both return one flag per voxel, in voxel order, each
    the predicate of that voxel with the same points and the same tolerance"""
    st, mp = m.func('_voxelize.find_inouts_st'), m.func('_voxelize.find_inouts_mp')
    bad = []
    optsets = ({'tol': 0.125}, {'padding': 0.25}, {'tol': 0.125, 'padding': 0.25}, {})
    cases = [(nvox, procs, oi) for nvox in (1, 5, 8, 27) for procs in (2, 4) for oi in range(len(optsets)) if oi == 0 or nvox == 5]
    for nvox, procs, oi in cases:
        opts = optsets[oi]
        grid = [('voxel', i) for i in range(nvox)]
        ptsarr = [('pts',)]
        outs = {}
        why = None
        for name, fi in (('st', st), ('mp', mp)):
            asked = []

            def inside(sk, node, bb, *a, _asked=asked, **k):
                p_ = k.get('ptsarr', a[0] if a else None)
                _asked.append((bb, p_, k.get('tol', a[1] if len(a) > 1 else 'default')))
                return 1 if isinstance(bb, tuple) and bb[1] % 2 == 0 else 0
            rec = []
            ab = dict(STD_ABSTRACTED)
            ab[('_voxelize', 'is_point_inside_voxel')] = Py(inside, 'is_point_inside_voxel')
            ab[('_voxelize', 'pool_context')] = Py(lambda sk, node, *a, _r=rec, **k: pool_stub(_r), 'pool_context')
            ab[('_utilities', 'pool_context')] = ab[('_voxelize', 'pool_context')]
            sk = SK(m, ab)
            try:
                out = sk.call(fi, [list(grid), ptsarr], dict(opts, num_procs=procs))
            except Violation as v:
                why = '%s: %s %s' % (fi.key, v.msg, v.where())
                break
            except Unsupported as ex:
                raise AnalysisError('%s: interpreter met an unsupported construct: %s' % (fi.key, ex))
            outs[name] = (out, asked)
        if why is None:
            want = [1 if i % 2 == 0 else 0 for i in range(nvox)]
            for name in ('st', 'mp'):
                out, asked = outs[name]
                fname = 'find_inouts_' + name
                if not isinstance(out, list) or [int(bool(x)) for x in out] != want:
                    why = '%s returns %s flags for %d voxels%s' % (fname, len(out) if isinstance(out, list) else out, nvox,
                                                                   '' if isinstance(out, list) and len(out) != nvox else ' and they are not the predicate of the voxel at the same position')
                elif sorted(a[0][1] for a in asked) != list(range(nvox)):
                    why = '%s tests the voxels %s' % (fname, sorted(a[0][1] for a in asked)[:10])
                elif any(a[1] is not ptsarr for a in asked):
                    why = '%s does not hand the data points to the predicate' % fname
                elif 'tol' in opts and 'padding' not in opts and any(a[2] != 0.125 for a in asked):
                    why = '%s calls the predicate with tolerance %r, the caller asked for tol=0.125' % (fname, asked[0][2])
                if why:
                    break
            if why is None:
                ts, tm = {a[2] for a in outs['st'][1]}, {a[2] for a in outs['mp'][1]}
                if ts != tm:
                    why = 'called with the options %s the serial variant tests the voxels with tolerance %s and the parallel one with %s: the result depends on num_procs' % (
                        sorted(opts.items()), sorted(map(str, ts)), sorted(map(str, tm)))
        if why:
            bad.append(((nvox, procs), why))
    run.ob(rule, '_voxelize.find_inouts_st / find_inouts_mp :: %d (grid size, processes, options) cases' % len(cases), not bad,
           'one flag per voxel in voxel order, same predicate arguments in both variants' if not bad else
           '%d voxels, %d processes: %s   [%d of %d cases]' % (bad[0][0][0], bad[0][0][1], bad[0][1], len(bad), len(cases)), 'geomdl/_voxelize.py')


# ====================================================================================== C11: fitting parameters and knots exactly
def fit3(m, run):
    """FIT3: the parameter and knot constructions of global interpolation / approximation interpreted exactly:
    compute_knot_vector on symbolic parameters is Eq. 9.8 (internal knot j = mean of u_j .. u_{j+p-1}, j = 1 .. n-p), compute_knot_vector2 is
    Eqs. 9.68 / 9.69, compute_params_curve with symbolic chord lengths is Eq. 9.5 (Eq. 9.6 with their square roots when centripetal),
    compute_params_surface averages the per-row and per-column parameters of compute_params_curve and forwards the centripetal flag to
    every one of them"""
    from fractions import Fraction
    from .skel import Sym
    from .poly import Poly

    def exact_sk(ab=None):
        sk = SK(m, ab or dict(STD_ABSTRACTED))
        sk.exact = True
        return sk

    def cmp_list(got, want, what):
        if not isinstance(got, list) or len(got) != len(want):
            return '%s has %r entries, expected %d' % (what, len(got) if isinstance(got, list) else got, len(want))
        for i, (g, w) in enumerate(zip(got, want)):
            s = _as_sym(g)
            if s is None or not s.same(w if isinstance(w, Sym) else Sym(w)):
                return '%s[%d] is %s, expected %r' % (what, i, repr(g)[:140], w)
        return None

    def guard(key, fi, fn, okmsg, rule='FIT3.parameters-and-knots-exact'):
        try:
            why = fn()
        except Violation as v:
            why = '%s %s' % (v.msg, v.where())
        except Unsupported as ex:
            raise AnalysisError('%s: interpreter met an unsupported construct: %s' % (key, ex))
        run.ob(rule, key, why is None, okmsg if why is None else why, 'geomdl/fitting.py:%d in %s' % (fi.node.lineno, fi.key))
    # ---- compute_knot_vector
    fk = m.func('fitting.compute_knot_vector')

    def kv1():
        for p in (1, 2, 3):
            for n in range(p + 1, p + 5):
                u = [Poly.atom('u%d' % i) for i in range(n)]
                out = exact_sk().call(fk, [p, n, [Sym(x) for x in u]], {})
                want = [Poly()] * (p + 1)
                for j in range(1, n - p):
                    acc = Poly()
                    for i in range(j, j + p):
                        acc = acc + u[i]
                    want.append(acc * Fraction(1, p))
                want += [Poly.const(1)] * (p + 1)
                w = cmp_list(out, want, 'degree %d, %d points: knot vector' % (p, n))
                if w:
                    return w + ' (Eq. 9.8: internal knot j is the mean of the parameters u_j .. u_{j+p-1}, j = 1 .. n-p)'
        return None
    guard('fitting.compute_knot_vector :: degree 1..3 x 4 sizes', fk, kv1, 'Eq. 9.8 as a polynomial identity in the parameters')
    # ---- compute_knot_vector2
    fk2 = m.func('fitting.compute_knot_vector2')

    def kv2():
        for p in (1, 2, 3):
            for ncp in range(p + 1, p + 4):
                for ndp in range(ncp + 1, ncp + 5):
                    u = [Poly.atom('u%d' % i) for i in range(ndp)]
                    out = exact_sk().call(fk2, [p, ndp, ncp, [Sym(x) for x in u]], {})
                    d = Fraction(ndp, ncp - p)
                    want = [Poly()] * (p + 1)
                    for j in range(1, ncp - p):
                        i = int(j * d)
                        al = j * d - i
                        want.append(u[i - 1] * (1 - al) + u[i] * al)
                    want += [Poly.const(1)] * (p + 1)
                    w = cmp_list(out, want, 'degree %d, %d data points, %d control points: knot vector' % (p, ndp, ncp))
                    if w:
                        return w + ' (Eqs. 9.68 / 9.69)'
        return None
    guard('fitting.compute_knot_vector2 :: degree 1..3 x 3 x 4 sizes', fk2, kv2, 'Eqs. 9.68 / 9.69 as a polynomial identity in the parameters')
    # ---- compute_params_curve
    fp = m.func('fitting.compute_params_curve')

    def prm():
        for n in (2, 3, 5):
            for cen in (False, True):
                P = pts(n, 3, labelled=True)
                idx = {id(p_): i for i, p_ in enumerate(P)}

                def dist(sk, node, a, b):
                    i, j = idx.get(id(a)), idx.get(id(b))
                    if i is None or j is None or abs(i - j) != 1:
                        raise Violation('FIT3', 'point_distance is asked about points %r and %r: chords join consecutive data points' % (i, j), node)
                    return Sym('d%d' % max(i, j))
                ab = dict(STD_ABSTRACTED)
                ab[('linalg', 'point_distance')] = Py(dist, 'point_distance')
                out = exact_sk(ab).call(fp, [P, cen], {})
                atom = (lambda i: Poly.atom('sqrt(d%d)' % i)) if cen else (lambda i: Poly.atom('d%d' % i))
                total = Poly()
                for i in range(1, n):
                    total = total + atom(i)
                want = []
                acc = Poly()
                for i in range(n):
                    if i > 0:
                        acc = acc + atom(i)
                    want.append(Sym(acc, total))
                w = cmp_list(out, want, '%d points%s: parameters' % (n, ', centripetal' if cen else ''))
                if w:
                    return w + (' (Eq. 9.6: cumulated square roots of the chord lengths over their sum)' if cen else ' (Eq. 9.5: cumulated chord lengths over their sum)')
        return None
    guard('fitting.compute_params_curve :: 2, 3, 5 points x chord length / centripetal', fp, prm, 'Eqs. 9.5 / 9.6 as an identity of rational functions in the chord lengths')
    # ---- compute_params_surface
    fps = m.func('fitting.compute_params_surface')

    def prms():
        for su, sv in ((3, 4), (4, 2)):
            for cen in (False, True):
                P = pts(su * sv, 3, labelled=True)
                calls = []

                def cpc(sk, node, line, *a, **k):
                    c = k.get('centripetal', a[0] if a else False)
                    labs_ = tuple(next(iter(footprint(p_))) if footprint(p_) and len(footprint(p_)) == 1 else None for p_ in line)
                    calls.append((labs_, c))
                    return [Sym('t_%s_%d' % ('_'.join(map(str, labs_)), i)) for i in range(len(line))]
                ab = dict(STD_ABSTRACTED)
                ab[('fitting', 'compute_params_curve')] = Py(cpc, 'compute_params_curve')
                out = exact_sk(ab).call(fps, [P, su, sv, cen], {})
                if any(c is not cen for _, c in calls):
                    bad = next(l for l, c in calls if c is not cen)
                    return 'centripetal=%r is not forwarded to compute_params_curve for the line of points %s: the two directions are parametrised by different methods' % (cen, list(bad))
                rows = [tuple(v + sv * u for u in range(su)) for v in range(sv)]         # lines along u, one per v
                cols = [tuple(v + sv * u for v in range(sv)) for u in range(su)]         # lines along v, one per u
                if sorted(l for l, _ in calls) != sorted(rows + cols):
                    return 'compute_params_curve is called for the lines %s; expected the %d lines along u and the %d lines along v of the v + size_v * u layout' % (
                        [list(l) for l, _ in calls][:3], sv, su)
                if not isinstance(out, (tuple, list)) or len(out) != 2:
                    return 'does not return (uk, vl)'
                wu = []
                for u in range(su):
                    acc = Poly()
                    for r in rows:
                        acc = acc + Poly.atom('t_%s_%d' % ('_'.join(map(str, r)), u))
                    wu.append(acc * Fraction(1, sv))
                wv = []
                for v in range(sv):
                    acc = Poly()
                    for c in cols:
                        acc = acc + Poly.atom('t_%s_%d' % ('_'.join(map(str, c)), v))
                    wv.append(acc * Fraction(1, su))
                w = cmp_list(list(out[0]), wu, '%d x %d points: uk' % (su, sv)) or cmp_list(list(out[1]), wv, '%d x %d points: vl' % (su, sv))
                if w:
                    return w + ' (parameter k of a direction is the mean over the lines of that direction)'
        return None
    guard('fitting.compute_params_surface :: 3 x 4 and 4 x 2 points x chord length / centripetal', fps, prms, 'per-direction means of the per-line parameters, flag forwarded to every line')


def is2(m, run):
    """IS2: fitting.interpolate_surface interpreted on a labelled su x sv data grid with its helpers replaced by recorders: the first pass
    solves one system per v index over the data points (u, v), u = 0 .. su-1, built from the u degree / knots / parameters; the second
    pass one system per u index over the first-pass results of that u for v = 0 .. sv-1, built from the v data; the control point at
    v + sv * u of the result is row v of the second-pass solution for u; degrees, sizes and knot vectors go to their own direction"""
    fi = m.func('fitting.interpolate_surface')
    bad = []
    cases = [((4, 3), (2, 1)), ((3, 5), (1, 2)), ((3, 4), (2, 3)), ((2, 3), (1, 2))]        # (the last two: a single polynomial segment per direction, degree = size - 1)
    for (su, sv), (pu, pv) in cases:
        def L(*lab):
            return Tok('DEF', dep=frozenset([lab]))
        P = [[L('Q', i // sv, i % sv, c) for c in range(3)] for i in range(su * sv)]
        uk, vl = [L('uk', i) for i in range(su)], [L('vl', j) for j in range(sv)]
        kvs, builds, solves, made = {}, [], [], []

        def lab(pt):
            f = footprint(pt) if isinstance(pt, (list, tuple)) else None
            if not f:
                return None
            heads = {x[:-1] for x in f}
            return next(iter(heads)) if len(heads) == 1 else None

        def cps(sk, node, points, a, b, *r, **k):
            if points is not P or (a, b) != (su, sv):
                raise Violation('IS2', 'compute_params_surface is called with sizes (%r, %r); the data grid is %d x %d' % (a, b, su, sv), node)
            return uk, vl

        def ckv(sk, node, degree, n, params):
            kv = [L('kv', len(kvs), i) for i in range(n + degree + 1)]
            kvs[id(kv)] = (degree, n, 'uk' if params is uk else ('vl' if params is vl else '?'))
            made.append(kv)
            return kv

        def bcm(sk, node, degree, kv, params, pts_):
            builds.append((degree, kvs.get(id(kv)), 'uk' if params is uk else ('vl' if params is vl else '?'), [lab(p_) for p_ in pts_]))
            return ('A', len(builds) - 1)

        def lus(sk, node, A, rhs):
            k_ = len(solves)
            solves.append((A, [lab(p_) for p_ in rhs]))
            return [[L('X', k_, i, c) for c in range(3)] for i in range(len(rhs))]
        ab = dict(STD_ABSTRACTED)
        ab[('fitting', 'compute_params_surface')] = Py(cps, 'compute_params_surface')
        ab[('fitting', 'compute_knot_vector')] = Py(ckv, 'compute_knot_vector')
        ab[('fitting', '_build_coeff_matrix')] = Py(bcm, '_build_coeff_matrix')
        ab[('linalg', 'lu_solve')] = Py(lus, 'lu_solve')
        shapes = []
        ab[('class', ('BSpline', 'Surface'))] = lambda sk, node, *a, **k: rec_shape(('BSpline', 'Surface'), shapes, {}, dict(k), 'constructed')
        sk = SK(m, ab)
        why = None
        try:
            out = sk.call(fi, [P, su, sv, pu, pv], {})
            if len(solves) != su + sv:
                why = '%d linear systems are solved, %d (one per v index) + %d (one per u index) are needed' % (len(solves), sv, su)
            else:
                for v in range(sv):
                    A, rhs = solves[v]
                    b = builds[A[1]] if isinstance(A, tuple) and A[0] == 'A' else None
                    want = [('Q', u, v) for u in range(su)]
                    if rhs != want:
                        why = 'first pass, system %d: the right-hand side is %s, expected the data points (u, %d) for u = 0 .. %d' % (v, rhs[:4], v, su - 1)
                    elif b is None or b[0] != pu or b[1] != (pu, su, 'uk') or b[2] != 'uk' or b[3] != want:
                        why = 'first pass, system %d: the coefficient matrix is built from degree %r, knots of %r, parameters %r; the u direction has degree %d, %d points and the parameters uk' % (
                            v, b and b[0], b and b[1], b and b[2], pu, su)
                    if why:
                        break
                for u in range(su):
                    if why:
                        break
                    A, rhs = solves[sv + u]
                    b = builds[A[1]] if isinstance(A, tuple) and A[0] == 'A' else None
                    want = [('X', v, u) for v in range(sv)]
                    if rhs != want:
                        why = 'second pass, system %d: the right-hand side is %s; expected row %d of every first-pass solution (v = 0 .. %d), i.e. the intermediate points at u + size_u * v' % (
                            u, rhs[:4], u, sv - 1)
                    elif b is None or b[0] != pv or b[1] != (pv, sv, 'vl') or b[2] != 'vl' or b[3] != want:
                        why = 'second pass, system %d: the coefficient matrix is built from degree %r, knots of %r, parameters %r; the v direction has degree %d, %d points and the parameters vl' % (
                            u, b and b[0], b and b[1], b and b[2], pv, sv)
            if why is None:
                if not isinstance(out, Bag):
                    why = 'does not return a surface'
                else:
                    a_ = out._a
                    cp = a_.get('ctrlpts')
                    got = [lab(p_) for p_ in cp] if isinstance(cp, list) else None
                    want = [('X', sv + u, v) for u in range(su) for v in range(sv)]
                    if got != want:
                        why = 'the control points of the result are %s ...; expected row v of the second-pass solution for u at position v + size_v * u' % (got[:4] if got else got,)
                    elif (a_.get('degree_u'), a_.get('degree_v'), a_.get('ctrlpts_size_u'), a_.get('ctrlpts_size_v')) != (pu, pv, su, sv):
                        why = 'the result gets degrees / sizes (%r, %r) / (%r, %r), expected (%d, %d) / (%d, %d)' % (a_.get('degree_u'), a_.get('degree_v'), a_.get('ctrlpts_size_u'),
                                                                                                            a_.get('ctrlpts_size_v'), pu, pv, su, sv)
                    elif kvs.get(id(a_.get('knotvector_u'))) != (pu, su, 'uk') or kvs.get(id(a_.get('knotvector_v'))) != (pv, sv, 'vl'):
                        why = 'the knot vectors of the result are built from %r / %r; expected (degree_u, size_u, uk) / (degree_v, size_v, vl)' % (
                            kvs.get(id(a_.get('knotvector_u'))), kvs.get(id(a_.get('knotvector_v'))))
        except Violation as v:
            why = '%s %s' % (v.msg, v.where())
        except Unsupported as ex:
            raise AnalysisError('%s: interpreter met an unsupported construct: %s' % (fi.key, ex))
        if why:
            bad.append((((su, sv), (pu, pv)), why))
    run.ob('IS2.two-pass-interpolation-on-labelled-grid', '%s :: %d non-square grids' % (fi.key, len(cases)), not bad,
           'per-v systems over u, then per-u systems over the intermediate points; result laid out at v + size_v * u' if not bad else
           'grid %s, degrees %s: %s   [%d of %d cases]' % (bad[0][0][0], bad[0][0][1], bad[0][1], len(bad), len(cases)), 'geomdl/fitting.py:%d in %s' % (fi.node.lineno, fi.key))


# ====================================================================================== C19 / C07: deep copies share nothing
def dc9(m, run, rule='DC9.deep-copy-shares-nothing'):
    """DC9: the __deepcopy__ of every shape class interpreted on an abstract object (memo contract of copy.deepcopy modelled: an object whose
    id is in memo is replaced by the memo value, containers are copied recursively): the copy is a new object of the same class, every
    attribute of the source is present in it, no list or dict reachable from the copy is the same object as one reachable from the source -
    the cache dictionary included - and every attribute other than the cache has equal content"""
    def reach(x, seen):
        if isinstance(x, (list, dict)):
            if id(x) in seen:
                return
            seen[id(x)] = x
            for y in (x.values() if isinstance(x, dict) else x):
                reach(y, seen)
        elif isinstance(x, tuple):
            for y in x:
                reach(y, seen)

    def same_content(a, b):
        if isinstance(a, (list, tuple)) and isinstance(b, (list, tuple)):
            return len(a) == len(b) and all(same_content(x, y) for x, y in zip(a, b))
        if isinstance(a, dict) and isinstance(b, dict):
            return set(a) == set(b) and all(same_content(a[k], b[k]) for k in a)
        return a is b or a == b
    n = 0
    for mod, cname in (('BSpline', 'Curve'), ('BSpline', 'Surface'), ('BSpline', 'Volume'), ('NURBS', 'Curve'), ('NURBS', 'Surface'), ('NURBS', 'Volume')):
        if (mod, cname) not in m.classes:
            continue
        fi = m.lookup((mod, cname), '__deepcopy__', 'methods')
        if fi is None:
            raise AnalysisError('%s.%s: no __deepcopy__ in its hierarchy' % (mod, cname))
        n += 1
        pdim = {'Curve': 1, 'Surface': 2, 'Volume': 3}[cname]
        kv = [floats(6) for _ in range(pdim)]
        cp = pts(8, 4 if mod == 'NURBS' else 3)
        cache = {'ctrlpts': [[DEF()]], 'weights': [DEF()]} if mod == 'NURBS' else {}
        src = Bag((mod, cname), _cache=cache, _control_points=cp, _knot_vector=kv, _degree=[2] * pdim, _control_points_size={1: [8], 2: [2, 4], 3: [2, 2, 2]}[pdim], _name='shape', _opt_data={'k': [1]},
                  _eval_points=[[DEF()]], _pdim=pdim, _dimension=3, _rational=(mod == 'NURBS'), _kv_normalize=True, _precision=18, _id=2, _array_type=None, _delta=[0.1] * pdim,
                  _bounding_box=[], _control_points2D=[cp[0:4], cp[4:8]] if pdim == 2 else [], _evaluator=None, _trims=[], _geometry_type='x', _iter_index=0, _idt={}, _span_func=None,
                  _insert_knot_func=None, _remove_knot_func=None, _tsl_component={'vertices': [], 'faces': []}, _vis_component={'figure': []})
        # (_id = 2 is also a degree: a memo entry for a small integer would replace every equal integer; the 2-D view of the 2 x 4 surface net
        # holds the very point lists of the flat array, point (u, v) at v + 4 u)
        sk = SK(m, dict(STD_ABSTRACTED))
        key = '%s.%s.__deepcopy__ (defined in %s)' % (mod, cname, fi.key)
        why = None
        try:
            out = sk.call(fi, [src, {}], {})
            if not isinstance(out, Bag) or out is src or out._cls != src._cls:
                why = 'does not return a new object of the same class'
            else:
                missing = [k for k in src._a if k not in out._a]
                if missing:
                    why = 'the copy has no attribute %s' % ', '.join(sorted(missing)[:3])
                else:
                    s_seen, c_seen = {}, {}
                    for k, v in src._a.items():
                        reach(v, s_seen)
                    for k, v in out._a.items():
                        reach(v, c_seen)
                    shared = [k for k in out._a if isinstance(out._a[k], (list, dict)) and id(out._a[k]) in s_seen]
                    deep = [i for i in c_seen if i in s_seen]
                    if shared:
                        why = 'attribute %s of the copy is the very object held by the source%s' % (
                            shared[0], ': the cache that holds the derived control point / weight views is shared, so a read on one object overwrites what the other sees' if shared[0] == '_cache' else '')
                    elif deep:
                        why = 'a container nested inside the copy is shared with the source'
                    else:
                        diff = [k for k in src._a if k != '_cache' and not same_content(src._a[k], out._a[k])]

                        def paths(x, pfx, acc):
                            if isinstance(x, (list, dict)):
                                acc.setdefault(id(x), []).append(pfx)
                                for kk, y in (x.items() if isinstance(x, dict) else enumerate(x)):
                                    paths(y, pfx + (kk,), acc)
                            return acc
                        ps_, pc_ = {}, {}
                        for k in src._a:
                            if k != '_cache':
                                paths(src._a[k], (k,), ps_)
                                paths(out._a[k], (k,), pc_)
                        alias_s = sorted(sorted(v) for v in ps_.values() if len(v) > 1)
                        alias_c = sorted(sorted(v) for v in pc_.values() if len(v) > 1)
                        if diff:
                            why = 'attribute %s of the copy does not have the content of the source (a memo entry keyed by the id of a shared value replaces every equal value, or a view is rebuilt in another order)' % diff[0]
                        elif alias_s != alias_c:
                            lost = next((a for a in alias_s if a not in alias_c), None)
                            why = ('in the source %s are one object, in the copy they are separate objects: an edit through one view no longer reaches the other'
                                   % ' and '.join('.'.join(map(str, p_)) for p_ in lost[:2])) if lost else 'the copy aliases containers the source keeps apart'
                        elif mod == 'NURBS' and not (isinstance(out._a['_cache'], dict) and set(out._a['_cache']) >= {'ctrlpts', 'weights'}):
                            why = 'the cache of the rational copy is not re-initialised with its ctrlpts / weights entries'
        except Violation as v:
            why = '%s %s' % (v.msg, v.where())
        except Unsupported as ex:
            raise AnalysisError('%s: interpreter met an unsupported construct: %s' % (key, ex))
        run.ob(rule, key, why is None, 'new object, all attributes present, no container shared (cache included), same content' if why is None else why,
               'geomdl/%s.py:%d in %s' % (fi.mod, fi.node.lineno, fi.key))
    if n < 6:
        raise AnalysisError('DC9: only %d shape classes found' % n)


# ====================================================================================== C19 / C17: knot vector setters on abstract shapes
def ks2(m, run, rule='KS2.knot-setters-respect-normalisation'):
    """KS2: every knot vector setter of the shape classes (the per-direction ones and the combined list setter) interpreted on an abstract
    shape: with normalize_kv=False the stored knot vector of the direction is the list that was given, never the result of
    knotvector.normalize; with normalize_kv=True it is the result of knotvector.normalize applied to that list; the other directions keep theirs"""
    cases = (('Curve', 1, (2,), (5,)), ('Surface', 2, (2, 1), (4, 5)), ('Volume', 3, (1, 2, 3), (3, 5, 4)))
    n = 0
    for cname, pdim, degs, sizes in cases:
        names = ['knotvector'] + (['knotvector_' + 'uvw'[d] for d in range(pdim)] if pdim > 1 else [])
        for prop in names:
            fi = m.lookup(('BSpline', cname), prop, 'setters')
            if fi is None:
                continue
            for normalize in (False, True):
                n += 1
                record = []
                obj = abstract_shape(cname, pdim, degs, sizes, normalize, record)
                old = [list(k) for k in obj._a['_knot_vector']]
                obj._a['_knot_vector'] = [list(k) for k in old]
                new = [[Tok('DEF', dep=frozenset([('new', d, i)])) for i in range(sizes[d] + degs[d] + 1)] for d in range(pdim)]
                normed = {}

                def norm_(sk, node, kv, *a, **k):
                    r = [Tok('DEF', dep=frozenset([('normalized', id(kv), i)])) for i in range(len(kv))]
                    normed[id(r)] = kv
                    return r
                ab = dict(STD_ABSTRACTED)
                ab[('knotvector', 'normalize')] = Py(norm_, 'knotvector.normalize')
                ab[('knotvector', 'check')] = Py(lambda sk, node, *a, **k: True, 'knotvector.check')
                if prop == 'knotvector':
                    value = new[0] if pdim == 1 else list(new)
                    touched = list(range(pdim))
                else:
                    d_ = 'uvw'.index(prop[-1])
                    value = new[d_]
                    touched = [d_]
                sk = SK(m, ab)
                key = 'BSpline.%s.%s setter, normalize_kv=%s' % (cname, prop, normalize)
                why = None
                try:
                    sk.call(fi, [obj, value], {})
                    stored = obj._a['_knot_vector']
                    for d in range(pdim):
                        st = stored[d]
                        if d in touched:
                            if normalize:
                                if normed.get(id(st)) is not new[d]:
                                    why = 'direction %s: with normalize_kv=True the stored knot vector is not knotvector.normalize(<the given list>)' % 'uvw'[d]
                            elif st is not new[d] and not (isinstance(st, list) and len(st) == len(new[d]) and all(a is b for a, b in zip(st, new[d]))):
                                why = ('direction %s: the shape was created with normalize_kv=False but the setter stores %s: the knots are mapped onto [0, 1] and two shapes '
                                       'whose knot vectors differ by a shift or a scale compare equal' % ('uvw'[d], 'the result of knotvector.normalize' if id(st) in normed else 'something else than the given knots'))
                        elif not (len(st) == len(old[d]) and all(a is b for a, b in zip(st, old[d]))):
                            why = 'direction %s is not being set but its knot vector changes' % 'uvw'[d]
                        if why:
                            break
                except Violation as v:
                    why = '%s %s' % (v.msg, v.where())
                except Unsupported as ex:
                    raise AnalysisError('%s: interpreter met an unsupported construct: %s' % (key, ex))
                run.ob(rule, key, why is None, 'stores %s' % ('normalize(given)' if normalize else 'the given knots') if why is None else why, 'geomdl/%s.py:%d in %s' % (fi.mod, fi.node.lineno, fi.key))
    if n < 12:
        raise AnalysisError('KS2: only %d knot vector setter cases found' % n)


# ====================================================================================== C04 / C06: insertion and removal exactly
def kir3(m, run, what=('insert', 'remove')):
    """KI3 / KR3: helpers.knot_insertion and helpers.knot_removal interpreted with exact rational knots and symbolic control points.
    KI3: inserting u r times gives exactly r repetitions of Boehm's single insertion (Q_i = a_i P_i + (1 - a_i) P_{i-1},
    a_i = (u - u_i) / (u_{i+p} - u_i) on k-p+1 .. k-s), for every span, existing multiplicity and admissible count.
    KR3: removing t of the r copies just inserted gives exactly the net with r - t copies inserted (t = r: the original net), the
    removability test being decided exactly (the two candidate points are identical polynomials)."""
    from fractions import Fraction as F
    from .skel import Sym
    from .poly import Poly

    def boehm(P, kv, p, u):
        k = max(i for i in range(len(kv) - 1) if kv[i] <= u < kv[i + 1])
        s = sum(1 for x in kv if x == u)
        Q = []
        for i in range(len(P) + 1):
            if i <= k - p:
                Q.append(list(P[i]))
            elif i >= k - s + 1:
                Q.append(list(P[i - 1]))
            else:
                a = (u - kv[i]) / (kv[i + p] - kv[i])
                Q.append([P[i][c] * a + P[i - 1][c] * (1 - a) for c in range(len(P[0]))])
        return Q, sorted(kv + [u])

    def same_net(got, want):
        if not isinstance(got, list) or len(got) != len(want):
            return '%r points, expected %d' % (len(got) if isinstance(got, list) else got, len(want))
        for i, (g, w) in enumerate(zip(got, want)):
            for c in range(len(w)):
                s = _as_sym(g[c]) if isinstance(g, (list, tuple)) and len(g) > c else None
                if s is None or not s.same(Sym(w[c])):
                    return 'point %d[%d] is %s, expected %r' % (i, c, repr(g[c])[:120] if isinstance(g, (list, tuple)) and len(g) > c else g, w[c])
        return None

    def eqdist(sk, node, a, b):
        sa_, sb_ = [_as_sym(x) for x in a], [_as_sym(x) for x in b]
        if any(x is None for x in sa_ + sb_):
            raise Violation('KR3', 'the removability test compares %r and %r' % (a, b), node)
        return 0.0 if all(x.same(y) for x, y in zip(sa_, sb_)) else 1.0
    # every case is run twice: on points (4 coordinates) and on rows of two points (2 coordinates each) - what the surface / volume
    # operations hand to the helpers; a row is updated point by point, so rows that share a point list change together
    def shaped(rows, nested):
        return [[[Sym(x) for x in row[:2]], [Sym(x) for x in row[2:]]] for row in rows] if nested else [[Sym(x) for x in row] for row in rows]

    def flat(out, nested):
        if not nested or not isinstance(out, list):
            return out
        return [(list(r[0]) + list(r[1])) if isinstance(r, (list, tuple)) and len(r) == 2 and all(isinstance(q, (list, tuple)) for q in r) else r for r in out]
    def snap(x):
        return [snap(y) for y in x] if isinstance(x, list) else x

    def untouched(inp, keep):
        """the rows handed in are what they were (same structure, the very same values)"""
        if isinstance(keep, list):
            return isinstance(inp, list) and len(inp) == len(keep) and all(untouched(a_, b_) for a_, b_ in zip(inp, keep))
        return inp is keep
    fins, frem = m.func('helpers.knot_insertion'), m.func('helpers.knot_removal')
    fkv = m.func('helpers.knot_insertion_kv')
    bad_i, bad_r, ni, nr = [], [], 0, 0
    nets = [(2, [F(0)] * 3 + [F(1, 3), F(2, 3)] + [F(1)] * 3), (3, [F(0)] * 4 + [F(1, 4), F(1, 2), F(1, 2), F(3, 4)] + [F(1)] * 4), (2, [F(0)] * 3 + [F(2, 5)] + [F(2)] * 3)]
    for p, kv in nets:
        n = len(kv) - p - 1
        P = [[Poly.atom('P%d_%d' % (i, c)) for c in range(4)] for i in range(n)]
        interior = sorted(set(kv[p + 1:-(p + 1)]))
        spans = sorted(set(kv[p:-p]))
        mids = [(a + b) / 2 for a, b in zip(spans, spans[1:])]
        for u in mids + interior:
            s = sum(1 for x in kv if x == u)
            k = max(i for i in range(len(kv) - 1) if kv[i] <= u < kv[i + 1])
            for r in range(1, p - s + 1):
                want, wkv = [list(row) for row in P], list(kv)
                chain = [want]
                for _ in range(r):
                    want, wkv = boehm(want, wkv, p, u)
                    chain.append(want)
                for nested in ((False, True) if 'insert' in what else ()):
                    ni += 1
                    sk = SK(m, {})          # nothing abstracted: the alpha helpers are interpreted on the rational knots
                    sk.exact = True
                    try:
                        inp = shaped(P, nested)
                        keep = snap(inp)
                        out = sk.call(fins, [p, list(kv), inp, u], {'num': r, 's': s, 'span': k})
                        why = same_net(flat(out, nested), want)
                        if why is None and not untouched(inp, keep):
                            why = 'the control points handed in are modified (they belong to the caller and are returned as the unaltered part of the result)'
                        if why and nested:
                            why = 'on rows of points: ' + why
                    except Violation as v:
                        why = '%s %s' % (v.msg, v.where())
                    except Unsupported as ex:
                        raise AnalysisError('%s: interpreter met an unsupported construct: %s' % (fins.key, ex))
                    if why:
                        bad_i.append(((p, [str(x) for x in kv], str(u), r), why))
                if 'remove' in what:
                    for t, nested in [(t_, n_) for t_ in range(1, r + 1) for n_ in (False, True)]:
                        nr += 1
                        ab = {('linalg', 'point_distance'): Py(eqdist, 'point_distance')}
                        sk = SK(m, ab)
                        sk.exact = True
                        try:
                            inp = shaped(want, nested)
                            keep = snap(inp)
                            out = sk.call(frem, [p, list(wkv), inp, u], {'num': t})
                            why = same_net(flat(out, nested), chain[r - t])
                            if why is None and not untouched(inp, keep):
                                why = 'the control points handed in are modified'
                            if why and nested:
                                why = 'on rows of points: ' + why
                        except Violation as v:
                            why = '%s %s' % (v.msg, v.where())
                        except Unsupported as ex:
                            raise AnalysisError('%s: interpreter met an unsupported construct: %s' % (frem.key, ex))
                        if why:
                            bad_r.append(((p, [str(x) for x in kv], str(u), r, t), why))
    if 'refine' in what:
        fref = m.func('helpers.knot_refinement')
        bad_f, nf = [], 0
        for p, kv in nets:
            n = len(kv) - p - 1
            P = [[Poly.atom('P%d_%d' % (i, c)) for c in range(4)] for i in range(n)]
            for density, nested in ((1, False), (2, False), (1, True), (2, True)):
                nf += 1
                sk = SK(m, {})
                sk.exact = True
                try:
                    # (A5.4 as ported updates rows of the slabs it is given in place - the operations hand it freshly built rows and the
                    # result is right, so this is not a clause of the property and is not asked for here)
                    out = sk.call(fref, [p, list(kv), shaped(P, nested)], {'density': density})
                    if nested and isinstance(out, (tuple, list)) and len(out) == 2:
                        out = (flat(out[0], True), out[1])
                    why = None
                    if not isinstance(out, (tuple, list)) or len(out) != 2:
                        why = 'does not return (control points, knot vector)'
                    else:
                        cp, nkv = out
                        nkv = [F(x) if not isinstance(x, F) else x for x in nkv]
                        # documented request: the knots of kv[p:-p], densified `density` times by midpoints, each brought to multiplicity p
                        kl = sorted(set(kv[p:-p]))
                        for _ in range(density):
                            kl = sorted(set(kl + [(a + b) / 2 for a, b in zip(kl, kl[1:])]))
                        X = []
                        for mk in kl:
                            s_ = sum(1 for x in kv if x == mk)
                            X += [mk] * max(p - s_, 0)
                        want_kv = sorted(list(kv) + X)
                        if nkv != want_kv:
                            why = 'the refined knot vector is %s, the request gives %s' % ([str(x) for x in nkv], [str(x) for x in want_kv])
                        else:
                            want, wkv = [list(r) for r in P], list(kv)
                            for x in sorted(X):
                                want, wkv = boehm(want, wkv, p, x)
                            why = same_net(cp, want)
                except Violation as v:
                    why = '%s %s' % (v.msg, v.where())
                except Unsupported as ex:
                    raise AnalysisError('%s: interpreter met an unsupported construct: %s' % (fref.key, ex))
                if why:
                    bad_f.append(((p, [str(x) for x in kv], density), why))
        run.ob('KF3.refinement-exact', '%s :: %d (net, density) cases' % (fref.key, nf), not bad_f, 'refinement equals the single Boehm insertions of its new knots, as a polynomial identity' if not bad_f else
               'degree %d, knots %s, density %d: %s   [%d of %d cases]' % (bad_f[0][0] + (bad_f[0][1], len(bad_f), nf)), 'geomdl/helpers.py:%d in %s' % (fref.node.lineno, fref.key))
    if 'insert' in what:
        run.ob('KI3.insertion-exact', '%s :: %d (net, parameter, count) cases' % (fins.key, ni), not bad_i, 'r-fold insertion equals r single Boehm insertions as a polynomial identity' if not bad_i else
               'degree %d, knots %s, u = %s inserted %d times: %s   [%d of %d cases]' % (bad_i[0][0] + (bad_i[0][1], len(bad_i), ni)), 'geomdl/helpers.py:%d in %s' % (fins.node.lineno, fins.key))
    if 'remove' in what:
        run.ob('KR3.removal-inverts-insertion-exactly', '%s :: %d (net, parameter, inserted, removed) cases' % (frem.key, nr), not bad_r,
               'removing t of r inserted copies gives the net with r - t copies, as a polynomial identity' if not bad_r else
               'degree %d, knots %s, u = %s inserted %d times, %d removed: %s   [%d of %d cases]' % (bad_r[0][0] + (bad_r[0][1], len(bad_r), nr)), 'geomdl/helpers.py:%d in %s' % (frem.node.lineno, frem.key))


# ====================================================================================== C01: point evaluation exactly
def evx(m, run):
    """EVX: the evaluate() method of every evaluator class (A3.1, A3.5 and the volume analogue, plain and rational) interpreted with the
    sampling, span search and basis-function helpers replaced by recorders / symbolic tables and the control points by symbolic atoms:
    sample (a, b, c) of the grid is exactly  sum N_u[a][i] N_v[b][j] N_w[c][k] P[span_u[a]-p+i][span_v[b]-q+j][span_w[c]-r+k]
    (divided by the same sum of the weights for rational shapes), the grid is listed u-major (v, then w fastest) and each helper is asked
    for its own direction: linspace(start_d, stop_d, sample_size_d), find_spans / basis_functions with degree_d, knots_d, size_d"""
    from .skel import Sym
    from .poly import Poly
    # (both orders of unequal degrees: a window cut with the other direction's degree + 1 is hidden by zip() when it is the longer one)
    cases = (('Curve', 1, (2,), (5,), (4,)), ('Surface', 2, (2, 1), (4, 5), (3, 4)), ('Surface', 2, (1, 2), (3, 5), (2, 3)), ('Volume', 3, (1, 2, 1), (3, 4, 2), (2, 3, 2)),
             ('Volume', 3, (2, 1, 2), (3, 3, 4), (2, 2, 2)))
    for cname, pdim, degs, sizes, samples in cases:
        for rat in (False, True):
            cls = cname + 'Evaluator' + ('Rational' if rat else '')
            if ('evaluators', cls) not in m.classes:
                continue
            fi = m.lookup(('evaluators', cls), 'evaluate', 'methods')
            hd = 3 + (1 if rat else 0)
            dd = datadict(pdim, degs, sizes, 3, rat)
            dd['sample_size'] = tuple(samples)
            dd['precision'] = 2         # (a shape built with a small precision: the setting rounds sampling parameters and knots, never points or weights)
            total = 1
            for s_ in sizes:
                total *= s_

            def coord(idx):
                if pdim == 1:
                    return (idx,)
                if pdim == 2:
                    return (idx // sizes[1], idx % sizes[1])
                v_ = idx % sizes[1]
                rest = idx // sizes[1]
                return (rest % sizes[0], v_, rest // sizes[0])
            dd['control_points'] = tuple([Sym('P_%s_%d' % ('_'.join(map(str, coord(i))), c)) for c in range(hd)] for i in range(total))
            start = [Tok('DEF', dep=frozenset([('start', d)])) for d in range(pdim)]
            stop = [Tok('DEF', dep=frozenset([('stop', d)])) for d in range(pdim)]
            params, spans_of = {}, {}

            def dir_of_kv(kv):
                return next((d for d in range(pdim) if kv is dd['knotvector'][d]), None)

            def linspace(sk, node, a, b, num, *r, **k):
                d = next((x for x in range(pdim) if a is start[x]), None)
                if d is None or b is not stop[d] or num != samples[d]:
                    raise Violation('EVX', 'linspace is asked for %r samples between %s and %s: start, stop and sample size of one direction go together' % (
                        num, sorted(a.dep) if isinstance(a, Tok) and a.dep else a, sorted(b.dep) if isinstance(b, Tok) and b.dep else b), node)
                params[d] = [Tok('DEF', dep=frozenset([('t', d, q)])) for q in range(num)]
                return params[d]

            def find_spans(sk, node, degree, kv, size, knots, *r, **k):
                d = dir_of_kv(kv)
                if d is None or degree != degs[d] or size != sizes[d] or knots is not params.get(d):
                    raise Violation('EVX', 'find_spans is asked with degree %r, %r control points and the knot vector / parameters of direction %r' % (degree, size, d), node)
                spans_of[d] = [degs[d] + (q % (sizes[d] - degs[d])) for q in range(len(knots))]
                return list(spans_of[d])

            def basis_functions(sk, node, degree, kv, spans, knots):
                d = dir_of_kv(kv)
                if d is None or degree != degs[d] or knots is not params.get(d) or list(spans) != spans_of.get(d):
                    raise Violation('EVX', 'basis_functions is asked with degree %r and the knot vector / spans / parameters of different directions' % (degree,), node)
                return [[Sym('N%d_%d_%d' % (d, q, i)) for i in range(degree + 1)] for q in range(len(knots))]
            ab = dict(STD_ABSTRACTED)
            ab[('linalg', 'linspace')] = Py(linspace, 'linspace')
            ab[('helpers', 'find_spans')] = Py(find_spans, 'find_spans')
            ab[('helpers', 'basis_functions')] = Py(basis_functions, 'basis_functions')
            key = 'evaluators.%s.evaluate :: degrees %s, net %s, samples %s' % (cls, degs, sizes, samples)

            def mk_sk(ab=ab):
                sk_ = SK(m, ab)
                sk_.exact = True
                return sk_

            def scenario(sk):
                why = None
                kw = {'start': start[0], 'stop': stop[0]} if pdim == 1 else {'start': list(start), 'stop': list(stop)}
                out = sk.call(fi, [evaluator(cls, [0]), dd], kw)
                nsamp = 1
                for s_ in samples:
                    nsamp *= s_
                if not isinstance(out, list) or len(out) != nsamp:
                    why = '%r points, the grid has %s = %d samples' % (len(out) if isinstance(out, list) else out, ' x '.join(map(str, samples)), nsamp)
                else:
                    import itertools as it
                    for pos, q in enumerate(it.product(*[range(s_) for s_ in samples])):
                        comps = []
                        for c in range(hd):
                            acc = Poly()
                            for off in it.product(*[range(p_ + 1) for p_ in degs]):
                                term = Poly.atom('P_%s_%d' % ('_'.join(str(spans_of[d][q[d]] - degs[d] + off[d]) for d in range(pdim)), c))
                                for d in range(pdim):
                                    term = term * Poly.atom('N%d_%d_%d' % (d, q[d], off[d]))
                                acc = acc + term
                            comps.append(acc)
                        want = [Sym(comps[c], comps[3]) for c in range(3)] if rat else [Sym(x) for x in comps]
                        got = out[pos]
                        if not isinstance(got, (list, tuple)) or len(got) != 3:
                            why = 'sample %s is %r: a point has 3 coordinates' % (list(q), got)
                            break
                        for c in range(3):
                            s = _as_sym(got[c])
                            if s is None or not s.same(want[c]):
                                why = 'sample %s (position %d of the list) coordinate %d is %s; the definition gives the tensor-product sum over the control points at spans %s' % (
                                    list(q), pos, c, repr(got[c])[:150], [spans_of[d][q[d]] for d in range(pdim)])
                                break
                        if why:
                            break
                return why
            try:
                why = forked(mk_sk, scenario, key)
            except Unsupported as ex:
                raise AnalysisError('%s: interpreter met an unsupported construct: %s' % (key, ex))

            run.ob('EVX.point-evaluation-exact', key, why is None, 'every sample is the tensor-product sum%s, listed u-major' % (' over the weight sum' if rat else '') if why is None else why,
                   'geomdl/evaluators.py:%d in %s' % (fi.node.lineno, fi.key))



def forked(make_sk, scenario, key, max_paths=96):
    """runs scenario(sk) -> None | reason (it may raise Violation) on a fresh interpreter from make_sk() for *both* outcomes of every
    comparison the abstraction cannot decide (typically a symbolic value against a threshold the code under analysis introduces): the
    scenario has to hold on every such path, since the symbolic values stand for arbitrary reals.  -> None, or the reason of the first
    failing path together with the comparisons that lead to it"""
    from .skel import explore

    def call(prefix):
        sk = make_sk()
        sk.decisions = list(prefix)
        try:
            why = scenario(sk)
        except Violation as v:
            why = '%s %s' % (v.msg, v.where())
        if why and sk.fork_log:
            why += '   [on the path where ' + ', '.join('`%s` is %s' % (t, 'true' if r else 'false') for t, r in sk.fork_log[:4]) + (' ...' if len(sk.fork_log) > 4 else '') + ']'
        return (('FORK', why) if why else None), sk.trace
    n, first, trunc = explore(call, max_paths, stop_on_failure=True)
    if first is not None:
        return first[1]
    if trunc:
        raise AnalysisError('%s: more than %d paths through comparisons of symbolic values with thresholds' % (key, max_paths))
    return None

# ====================================================================================== C03: basis functions as exact polynomials
def bf3(m, run):
    """BF3: the basis-function routines interpreted on exact rational knot vectors with the parameter a symbolic atom t ranging over the
    interior of one knot span (order comparisons of t with knots are decided by that interval, arithmetic is exact): on every non-empty
    span of every enumerated knot vector, basis_function / basis_function_all / basis_function_one return the Cox-de Boor polynomials
    N_{i,d}(t) (computed here by the defining recursion), which sum to one; basis_function_ders / basis_function_ders_one return their
    exact derivatives d^r N / dt^r for every order up to degree + 1 (zero above the degree); the list variants map the single ones"""
    from fractions import Fraction as F
    from .skel import Sym
    from .poly import Poly
    T = Poly.atom('t')

    def cdb(kv, p):
        """N[d][i] polynomial pieces are span dependent: returns function (i, d, k) -> Poly on span k"""
        memo = {}

        def N(i, d, k):
            key = (i, d, k)
            if key in memo:
                return memo[key]
            if d == 0:
                r = Poly.const(1) if i == k else Poly()
            else:
                r = Poly()
                den1 = kv[i + d] - kv[i]
                if den1 != 0:
                    r = r + (T - kv[i]) * N(i, d - 1, k) * (1 / F(den1))
                den2 = kv[i + d + 1] - kv[i + 1]
                if den2 != 0:
                    r = r + (Poly.const(kv[i + d + 1]) - T) * N(i + 1, d - 1, k) * (1 / F(den2))
            memo[key] = r
            return r
        return N
    nets = [(1, [F(0), F(0), F(1, 2), F(1), F(1)]),
            (2, [F(0)] * 3 + [F(1, 3), F(2, 3)] + [F(1)] * 3),
            (3, [F(0)] * 4 + [F(1, 4), F(1, 2), F(1, 2), F(3, 4)] + [F(1)] * 4),
            (2, [F(-1)] * 3 + [F(1, 2), F(1, 2), F(3)] + [F(5)] * 3),
            (3, [F(0), F(1), F(2), F(3), F(4), F(5), F(6), F(7), F(8)]),           # un-clamped, uniform
            (2, [F(0)] * 3 + [F(1, 2), F(1, 2) + F(1, 2 ** 40)] + [F(1)] * 3)]     # a span of width 2^-40: knots that differ, however little, are different knots
    if run.tier == 'thorough':
        nets.append((4, [F(0)] * 5 + [F(1, 5), F(2, 5), F(2, 5), F(2, 5), F(7, 10)] + [F(1)] * 5))
    fb, fall, fone = m.func('helpers.basis_function'), m.func('helpers.basis_function_all'), m.func('helpers.basis_function_one')
    fd, fdo = m.func('helpers.basis_function_ders'), m.func('helpers.basis_function_ders_one')
    fbs = m.func('helpers.basis_functions')
    res = {k: [] for k in ('basis_function', 'basis_function_all', 'basis_function_one', 'basis_function_ders', 'basis_function_ders_one', 'basis_functions')}
    cnt = dict.fromkeys(res, 0)

    def same(v, want):
        s = _as_sym(v)
        return s is not None and s.same(Sym(want))

    def call(fi, args):
        sk = SK(m, {})
        sk.exact = True
        try:
            return sk.call(fi, args, {}), None
        except Violation as v:
            return None, '%s %s' % (v.msg, v.where())
        except Unsupported as ex:
            raise AnalysisError('%s: interpreter met an unsupported construct: %s' % (fi.key, ex))
    for p, kv in nets:
        n = len(kv) - p - 1
        N = cdb(kv, p)
        for k in range(p, n):
            if kv[k] == kv[k + 1]:
                continue
            t = Sym(T, iv=(kv[k], kv[k + 1]))
            tag = 'degree %d, knots %s, t in (%s, %s)' % (p, [str(x) for x in kv], kv[k], kv[k + 1])
            # basis_function
            cnt['basis_function'] += 1
            out, err = call(fb, [p, list(kv), k, t])
            if err is None:
                if not isinstance(out, list) or len(out) != p + 1:
                    err = 'returns %r' % (out,)
                else:
                    tot = Poly()
                    for j in range(p + 1):
                        if not same(out[j], N(k - p + j, p, k)):
                            err = 'N[%d] is %s, the Cox-de Boor recursion gives %r' % (j, repr(out[j])[:120], N(k - p + j, p, k))
                            break
                        tot = tot + N(k - p + j, p, k)
                    if err is None and tot != Poly.const(1):
                        err = 'the functions do not sum to one'
            if err:
                res['basis_function'].append((tag, err))
            # basis_functions (list variant)
            cnt['basis_functions'] += 1
            out2, err = call(fbs, [p, list(kv), [k, k], [t, t]])
            if err is None and not (isinstance(out2, list) and len(out2) == 2 and all(isinstance(r_, list) and len(r_) == p + 1 and all(same(r_[j], N(k - p + j, p, k)) for j in range(p + 1)) for r_ in out2)):
                err = 'the list variant does not return basis_function of every (span, parameter) pair'
            if err:
                res['basis_functions'].append((tag, err))
            # basis_function_all
            cnt['basis_function_all'] += 1
            out, err = call(fall, [p, list(kv), k, t])
            if err is None:
                for d in range(p + 1):
                    for j in range(d + 1):
                        try:
                            v = out[j][d]
                        except (IndexError, TypeError):
                            err = 'entry [%d][%d] is missing' % (j, d)
                            break
                        if not same(v, N(k - d + j, d, k)):
                            err = 'entry [function %d][degree %d] is %s, N_{%d,%d} is %r' % (j, d, repr(v)[:100], k - d + j, d, N(k - d + j, d, k))
                            break
                    if err:
                        break
            if err:
                res['basis_function_all'].append((tag, err))
            # basis_function_one for every function index
            for i in range(n):
                cnt['basis_function_one'] += 1
                out, err = call(fone, [p, list(kv), i, t])
                want = N(i, p, k) if k - p <= i <= k else Poly()
                if err is None and not same(out, want):
                    err = 'N_{%d,%d} is %s, the recursion gives %r' % (i, p, repr(out)[:120], want)
                if err:
                    res['basis_function_one'].append((tag, err))
            # derivatives
            for order in range(0, p + 2):
                cnt['basis_function_ders'] += 1
                out, err = call(fd, [p, list(kv), k, t, order])
                if err is None:
                    if not isinstance(out, list) or len(out) != order + 1:
                        err = 'order %d: %r rows' % (order, len(out) if isinstance(out, list) else out)
                    else:
                        for j in range(p + 1):
                            w = N(k - p + j, p, k)
                            for r in range(order + 1):
                                if not same(out[r][j], w):
                                    err = 'order %d: ders[%d][%d] is %s, d^%d N_{%d,%d} / dt^%d is %r' % (order, r, j, repr(out[r][j])[:100], r, k - p + j, p, r, w)
                                    break
                                w = w.diff('t')
                            if err:
                                break
                if err:
                    res['basis_function_ders'].append((tag, err))
                for i in range(max(0, k - p - 1), min(n, k + 2)):
                    cnt['basis_function_ders_one'] += 1
                    out, err = call(fdo, [p, list(kv), i, t, order])
                    if err is None:
                        w = N(i, p, k) if k - p <= i <= k else Poly()
                        if not isinstance(out, list) or len(out) != order + 1:
                            err = 'order %d: %r entries' % (order, len(out) if isinstance(out, list) else out)
                        else:
                            for r in range(order + 1):
                                if not same(out[r], w):
                                    err = 'order %d, function %d: ders[%d] is %s, the derivative is %r' % (order, i, r, repr(out[r])[:100], w)
                                    break
                                w = w.diff('t')
                    if err:
                        res['basis_function_ders_one'].append((tag, err))
    for name in ('basis_function', 'basis_functions', 'basis_function_all', 'basis_function_one', 'basis_function_ders', 'basis_function_ders_one'):
        bad = res[name]
        fi = m.func('helpers.' + name)
        run.ob('BF3.basis-functions-exact', 'helpers.%s :: %d (knot vector, span%s) cases' % (name, cnt[name], ', function / order' if name.endswith(('one', 'ders')) else ''), not bad,
               'equal to the Cox-de Boor polynomials (their exact derivatives) on the whole span' if not bad else '%s: %s   [%d of %d cases]' % (bad[0][0], bad[0][1], len(bad), cnt[name]),
               'geomdl/helpers.py:%d in %s' % (fi.node.lineno, fi.key))


def bf4(m, run):
    """BF4: helpers.basis_function_one interpreted with exact rational arithmetic on one knot vector of every clamped order type (degree
    1..2, thorough 3; n = p+1..p+3 control points; unevenly spaced knots), for every function index and the parameter at every distinct knot
    and at the midpoint of every non-empty span: the value is N_{i,p}(u) of the Cox-de Boor recursion on half-open spans, the last knot
    belonging to the last non-empty span (so N_{n-1,p} = 1 there and every other function 0) - whatever path (early return or the
    triangular table) produces it"""
    from fractions import Fraction as F
    from .skel import Sym
    from .poly import Poly
    T = Poly.atom('t')
    fone = m.func('helpers.basis_function_one')
    P = 3 if run.tier == 'thorough' else 2
    bad, cnt = [], 0
    for p in range(1, P + 1):
        for n in range(p + 1, p + 4):
            for ranks in knot_order_types(p, n, True):
                kv = [F(r) + F(r * r, 4) for r in ranks]
                memo = {}

                def N(i, d, k):
                    key = (i, d, k)
                    if key not in memo:
                        if d == 0:
                            r = Poly.const(1) if i == k else Poly()
                        else:
                            r = Poly()
                            den1 = kv[i + d] - kv[i]
                            if den1 != 0:
                                r = r + (T - kv[i]) * N(i, d - 1, k) * (1 / F(den1))
                            den2 = kv[i + d + 1] - kv[i + 1]
                            if den2 != 0:
                                r = r + (Poly.const(kv[i + d + 1]) - T) * N(i + 1, d - 1, k) * (1 / F(den2))
                        memo[key] = r
                    return memo[key]
                dist = sorted(set(kv))
                pos = []
                for a, b in zip(dist, dist[1:]):
                    pos += [a, (a + b) / 2]
                pos.append(dist[-1])
                last_span = max(k for k in range(p, n) if kv[k] != kv[k + 1])
                for u in pos:
                    k = last_span if u == kv[-1] else max(j for j in range(len(kv) - 1) if kv[j] <= u)
                    for i in range(n):
                        cnt += 1
                        want = N(i, p, k).subs('t', Poly.const(u)) if k - p <= i <= k else Poly()
                        sk = SK(m, {})
                        sk.exact = True
                        try:
                            out = sk.call(fone, [p, list(kv), i, u], {})
                            s_ = _as_sym(out)
                            if s_ is None or not s_.same(Sym(want)):
                                bad.append(('degree %d, knots %s, function %d, u = %s' % (p, [str(x) for x in kv], i, u), 'returns %s, N_{%d,%d}(u) is %r' % (repr(out)[:80], i, p, want)))
                        except Violation as v:
                            bad.append(('degree %d, knots %s, function %d, u = %s' % (p, [str(x) for x in kv], i, u), '%s %s' % (v.msg, v.where())))
                        except Unsupported as ex:
                            raise AnalysisError('%s: interpreter met an unsupported construct: %s' % (fone.key, ex))
    run.ob('BF4.single-basis-function-at-knots-and-between', 'helpers.basis_function_one :: %d (order type, function, parameter) cases' % cnt, not bad,
           'equal to the Cox-de Boor value, the last knot taken in the last non-empty span' if not bad else '%s: %s   [%d of %d cases]' % (bad[0][0], bad[0][1], len(bad), cnt),
           'geomdl/helpers.py:%d in %s' % (fone.node.lineno, fone.key))


# ====================================================================================== C02: derivative control points exactly
def pk3(m, run):
    """PK3: helpers.curve_deriv_cpts (A3.3) and helpers.surface_deriv_cpts (A3.7) interpreted on exact rational knots and symbolic control
    points: PK[k][i] = (p - k + 1) / (U[r1+i+p+1] - U[r1+i+k]) (PK[k-1][i+1] - PK[k-1][i]) for every window (r1, r2) and order;
    PKL[k][l][i][j] = the u-recursion applied k times and the v-recursion l times to the net window, for k + l <= order"""
    from fractions import Fraction as F
    from .skel import Sym
    from .poly import Poly

    def rec(P, kv, p, r1, order):
        """P: list of lists of Poly (window already cut: P[i] = cpts[r1 + i])"""
        out = [[list(x) for x in P]]
        for k in range(1, order + 1):
            prev, cur = out[-1], []
            for i in range(len(P) - k):
                den = kv[r1 + i + p + 1] - kv[r1 + i + k]
                if den == 0:
                    raise ZeroDivisionError      # a zero-length knot difference: outside the contract of A3.3 (case skipped by the caller)
                cur.append([(a - b) * F(p - k + 1) * (1 / F(den)) for a, b in zip(prev[i + 1], prev[i])])
            out.append(cur)
        return out

    def same(v, w):
        s = _as_sym(v)
        return s is not None and s.same(Sym(w))
    fc, fs = m.func('helpers.curve_deriv_cpts'), m.func('helpers.surface_deriv_cpts')
    bad, n = [], 0
    curves = [(2, [F(0)] * 3 + [F(1, 3), F(2, 3)] + [F(1)] * 3), (3, [F(-1)] * 4 + [F(0), F(1, 2), F(1, 2), F(2)] + [F(3)] * 4)]
    for p, kv in curves:
        npts = len(kv) - p - 1
        P = [[Poly.atom('P%d_%d' % (i, c)) for c in range(2)] for i in range(npts)]
        windows = [(0, npts - 1)] + [(k - p, k) for k in range(p, npts) if kv[k] != kv[k + 1]]
        for r1, r2 in windows:
            for order in range(0, min(p, r2 - r1) + 1):
                try:
                    want = rec(P[r1:r2 + 1], kv, p, r1, order)
                except ZeroDivisionError:
                    continue
                n += 1
                sk = SK(m, {})
                sk.exact = True
                try:
                    out = sk.call(fc, [2, p, list(kv), [[Sym(x) for x in row] for row in P]], {'rs': (r1, r2), 'deriv_order': order})
                    why = None
                    for k in range(order + 1):
                        for i in range(r2 - r1 - k + 1):
                            for c in range(2):
                                if not same(out[k][i][c], want[k][i][c]):
                                    why = 'PK[%d][%d][%d] is %s, A3.3 gives %r' % (k, i, c, repr(out[k][i][c])[:120], want[k][i][c])
                                    break
                            if why:
                                break
                        if why:
                            break
                except (IndexError, TypeError) as ex:
                    why = 'result has the wrong shape (%s)' % ex
                except Violation as v:
                    why = '%s %s' % (v.msg, v.where())
                except Unsupported as ex:
                    raise AnalysisError('%s: interpreter met an unsupported construct: %s' % (fc.key, ex))
                if why:
                    bad.append(((p, [str(x) for x in kv], (r1, r2), order), why))
    run.ob('PK3.derivative-control-points-exact', '%s :: %d (knot vector, window, order) cases' % (fc.key, n), not bad, 'A3.3 as a polynomial identity in the control points over rational knots' if not bad else
           'degree %d, knots %s, window %s, order %d: %s   [%d of %d cases]' % (bad[0][0] + (bad[0][1], len(bad), n)), 'geomdl/helpers.py:%d in %s' % (fc.node.lineno, fc.key))
    bad, n = [], 0
    (p, kvu), (q, kvv) = curves[0], (1, [F(0), F(0), F(1, 4), F(1, 2), F(2), F(2)])
    nu, nv = len(kvu) - p - 1, len(kvv) - q - 1
    P = [[Poly.atom('P%d_%d_%d' % (i // nv, i % nv, c)) for c in range(2)] for i in range(nu * nv)]
    for (r1, r2), (s1, s2) in (((0, nu - 1), (0, nv - 1)), ((1, 3), (1, 2)), ((2, 4), (2, 3))):
        for order in range(0, 3):
            n += 1
            sk = SK(m, {})
            sk.exact = True
            try:
                out = sk.call(fs, [2, [p, q], [list(kvu), list(kvv)], [[Sym(x) for x in row] for row in P], [nu, nv]], {'rs': (r1, r2), 'ss': (s1, s2), 'deriv_order': order})
                why = None
                # u-recursion on every v column of the window, then v-recursion on every row of each u-derivative net
                cols = {j: rec([P[j + nv * i] for i in range(r1, r2 + 1)], kvu, p, r1, min(p, order)) for j in range(s1, s2 + 1)}
                for k in range(0, min(p, order) + 1):
                    for i in range(r2 - r1 - k + 1):
                        row = [cols[j][k][i] for j in range(s1, s2 + 1)]
                        vders = rec(row, kvv, q, s1, min(order - k, q))
                        for l in range(0, min(order - k, q) + 1):
                            for j in range(s2 - s1 - l + 1):
                                for c in range(2):
                                    if not same(out[k][l][i][j][c], vders[l][j][c]):
                                        why = 'PKL[%d][%d][%d][%d][%d] is %s, A3.7 gives %r' % (k, l, i, j, c, repr(out[k][l][i][j][c])[:120], vders[l][j][c])
                                        break
                                if why:
                                    break
                            if why:
                                break
                        if why:
                            break
                    if why:
                        break
            except (IndexError, TypeError) as ex:
                why = 'result has the wrong shape (%s)' % ex
            except Violation as v:
                why = '%s %s' % (v.msg, v.where())
            except Unsupported as ex:
                raise AnalysisError('%s: interpreter met an unsupported construct: %s' % (fs.key, ex))
            if why:
                bad.append((((r1, r2), (s1, s2), order), why))
    run.ob('PK3.derivative-control-points-exact', '%s :: %d (windows, order) cases on a %d x %d net of degrees (%d, %d)' % (fs.key, n, nu, nv, p, q), not bad,
           'A3.7 as a polynomial identity in the control points over rational knots' if not bad else
           'windows %s / %s, order %d: %s   [%d of %d cases]' % (bad[0][0] + (bad[0][1], len(bad), n)), 'geomdl/helpers.py:%d in %s' % (fs.node.lineno, fs.key))


# ====================================================================================== C07: splitting exactly
def rec_curve(made, p, kv, cps, rational, opts=None, origin='input'):
    """recorder curve with exact knots and symbolic (homogeneous when rational) control points; set_ctrlpts / knotvector / degree are
    recorded on the object itself, a deep copy and obj.__class__() give new recorder curves"""
    from .skel import Sym
    b = Bag('rec:Curve')
    a = b._a
    a['__isa__'] = (('BSpline', 'Curve'),)
    a['_origin'], a['_opts'] = origin, dict(opts or {})
    a['degree'], a['knotvector'], a['rational'], a['pdimension'], a['dimension'] = p, list(kv) if kv is not None else None, rational, 1, 2

    def install(points):
        a['_set'] = points
        if rational:
            a['ctrlptsw'] = points
            a['ctrlpts'] = [[Sym('unweighted_%d_%d' % (i, c)) for c in range(2)] for i in range(len(points))]       # a different view: using it for a rational curve shows
        else:
            a['ctrlpts'] = points
        a['ctrlpts_size'] = len(points)
    if cps is not None:
        install([list(x) for x in cps])
    a['set_ctrlpts'] = Py(lambda sk, node, pts_, *r, **k: install([list(x) for x in pts_]), 'set_ctrlpts')
    a['__deepcopy__'] = lambda x: rec_curve(made, x._a['degree'], x._a['knotvector'], x._a.get('_set'), rational, x._a['_opts'], 'deepcopy')
    a['__class__'] = Py(lambda sk, node, *r, **k: rec_curve(made, None, None, None, rational, dict(k), 'constructed'), '__class__')
    made.append(b)
    return b


def sp3(m, run):
    """SP3: operations.split_curve interpreted on recorder curves with exact rational knots and symbolic control points (homogeneous ones
    for the rational case): for every interior split parameter (inside a span, on a simple knot, on a double knot) the two pieces are
    exactly the left and right part of the net obtained by raising the parameter to full multiplicity with single Boehm insertions, with
    the knot vectors [knots < u, u x (p+1)] and [u x (p+1), knots > u]; the input object is left as it was; the domain ends are rejected"""
    from fractions import Fraction as F
    from .skel import Sym
    from .poly import Poly
    fi = m.func('operations.split_curve')

    def boehm(P, kv, p, u):
        k = max(i for i in range(len(kv) - 1) if kv[i] <= u < kv[i + 1])
        s = sum(1 for x in kv if x == u)
        Q = []
        for i in range(len(P) + 1):
            if i <= k - p:
                Q.append(list(P[i]))
            elif i >= k - s + 1:
                Q.append(list(P[i - 1]))
            else:
                al = (u - kv[i]) / (kv[i + p] - kv[i])
                Q.append([P[i][c] * al + P[i - 1][c] * (1 - al) for c in range(len(P[0]))])
        return Q, sorted(kv + [u])
    bad, n = [], 0
    nets = [(2, [F(0)] * 3 + [F(1, 3), F(2, 3)] + [F(1)] * 3), (3, [F(-1)] * 4 + [F(0), F(1, 2), F(1, 2), F(2)] + [F(3)] * 4)]
    for p, kv in nets:
        npts = len(kv) - p - 1
        for rational in (False, True):
            hd = 3 if rational else 2
            P = [[Poly.atom('P%d_%d' % (i, c)) for c in range(hd)] for i in range(npts)]
            spans = sorted(set(kv[p:-p]))
            params = [(a_ + b_) / 2 for a_, b_ in zip(spans, spans[1:])] + sorted(set(kv[p + 1:-(p + 1)]))
            for u in params:
                n += 1
                made = []
                obj = rec_curve(made, p, kv, [[Sym(x) for x in row] for row in P], rational)
                obj._a['domain'] = (kv[p], kv[-(p + 1)])
                before = (list(obj._a['knotvector']), [list(r_) for r_ in obj._a['_set']])
                sk = SK(m, {('linalg', 'point_distance'): STD_ABSTRACTED[('linalg', 'point_distance')]})
                sk.exact = True
                why = None
                try:
                    out = sk.call(fi, [obj, u], {})
                    s_ = sum(1 for x in kv if x == u)
                    Q, kvq = [list(r_) for r_ in P], list(kv)
                    for _ in range(p - s_):
                        Q, kvq = boehm(Q, kvq, p, u)
                    lkv = [x for x in kvq if x < u] + [u] * (p + 1)
                    rkv = [u] * (p + 1) + [x for x in kvq if x > u]
                    nl = len(lkv) - p - 1
                    want = ((lkv, Q[:nl]), (rkv, Q[nl - 1:]))
                    if not isinstance(out, (list, tuple)) or len(out) != 2:
                        why = 'does not return two pieces'
                    elif (list(obj._a['knotvector']), obj._a['_set']) != before or any(o is obj for o in out):
                        why = 'the input curve is modified (or returned as a piece)'
                    else:
                        for name, piece, (wkv, wcp) in zip(('left', 'right'), out, want):
                            a = piece._a
                            got = a.get('_set')
                            if a.get('degree') != p:
                                why = 'the %s piece has degree %r' % (name, a.get('degree'))
                            elif [F(x) for x in (a.get('knotvector') or [])] != wkv:
                                why = 'the %s piece has the knot vector %s, expected %s' % (name, [str(x) for x in (a.get('knotvector') or [])], [str(x) for x in wkv])
                            elif not isinstance(got, list) or len(got) != len(wcp):
                                why = 'the %s piece has %r control points, expected %d' % (name, len(got) if isinstance(got, list) else got, len(wcp))
                            else:
                                for i, (g, w) in enumerate(zip(got, wcp)):
                                    for c in range(hd):
                                        sv_ = _as_sym(g[c]) if len(g) > c else None
                                        if sv_ is None or not sv_.same(Sym(w[c])):
                                            why = 'point %d of the %s piece is %s; the refined net has %r there%s' % (
                                                i, name, repr(g)[:120], w[c], ' (a rational curve is split in homogeneous coordinates)' if rational else '')
                                            break
                                    if why:
                                        break
                            if why:
                                break
                except Violation as v:
                    why = '%s %s' % (v.msg, v.where())
                except Unsupported as ex:
                    raise AnalysisError('%s: interpreter met an unsupported construct: %s' % (fi.key, ex))
                if why:
                    bad.append(((p, [str(x) for x in kv], str(u), rational), why))
        # the domain ends are rejected
        for u in (kv[p], kv[-(p + 1)]):
            n += 1
            made = []
            obj = rec_curve(made, p, kv, [[Sym('P%d_%d' % (i, c)) for c in range(2)] for i in range(npts)], False)
            obj._a['domain'] = (kv[p], kv[-(p + 1)])
            sk = SK(m, {})
            sk.exact = True
            try:
                sk.call(fi, [obj, u], {})
                bad.append(((p, [str(x) for x in kv], str(u), False), 'a split at the domain end is not rejected'))
            except Violation as v:
                if v.rule != 'RAISE':
                    bad.append(((p, [str(x) for x in kv], str(u), False), 'a split at the domain end fails with `%s` instead of being rejected' % v.msg[:80]))
            except Unsupported as ex:
                raise AnalysisError('%s: interpreter met an unsupported construct: %s' % (fi.key, ex))
    run.ob('SP3.split-exact', '%s :: %d (curve, parameter, rational) cases' % (fi.key, n), not bad, 'pieces are the two halves of the fully refined net; input untouched; domain ends rejected' if not bad else
           'degree %d, knots %s, u = %s, rational %s: %s   [%d of %d cases]' % (bad[0][0] + (bad[0][1], len(bad), n)), 'geomdl/operations.py:%d in %s' % (fi.node.lineno, fi.key))


def rec_surface(made, degs, kvs, grid, rational, opts=None, origin='input'):
    """recorder surface: exact knots, symbolic control points kept as a [u][v] grid; set_ctrlpts(flat, size_u, size_v) and the ctrlpts2d
    assignment keep the flat list, the sizes and the 2-D view in step (layout v + size_v * u)"""
    from .skel import Sym
    b = Bag('rec:Surface')
    a = b._a
    a['__isa__'] = (('BSpline', 'Surface'),)
    a['_origin'], a['_opts'] = origin, dict(opts or {})
    a['rational'], a['pdimension'], a['dimension'] = rational, 2, 2
    if degs is not None:
        a['degree_u'], a['degree_v'] = degs
        a['degree'] = list(degs)
    if kvs is not None:
        a['knotvector_u'], a['knotvector_v'] = list(kvs[0]), list(kvs[1])

    def install(flat, su, sv):
        a['_grid'] = [[flat[v + sv * u] for v in range(sv)] for u in range(su)]
        a['ctrlpts2d'] = [list(r) for r in a['_grid']]
        if rational:
            a['ctrlptsw'] = list(flat)
            a['ctrlpts'] = [[Sym('unweighted_%d_%d' % (i, c)) for c in range(2)] for i in range(len(flat))]
        else:
            a['ctrlpts'] = list(flat)
        a['ctrlpts_size_u'], a['ctrlpts_size_v'] = su, sv
        a['cpsize'] = [su, sv]
        a['ctrlpts_size'] = su * sv
    if grid is not None:
        install([p_ for row in grid for p_ in row], len(grid), len(grid[0]))

    def set_ctrlpts(sk, node, flat, *sz, **k):
        if len(sz) < 2:
            raise Violation('SP3', 'set_ctrlpts is called without the two sizes', node)
        if len(flat) != sz[0] * sz[1]:
            raise Violation('SP3', 'set_ctrlpts receives %d points for a %d x %d net' % (len(flat), sz[0], sz[1]), node)
        install(list(flat), sz[0], sz[1])
    a['set_ctrlpts'] = Py(set_ctrlpts, 'set_ctrlpts')
    a['__deepcopy__'] = lambda x: rec_surface(made, (x._a['degree_u'], x._a['degree_v']), (x._a['knotvector_u'], x._a['knotvector_v']), x._a.get('_grid'), rational, x._a['_opts'], 'deepcopy')
    a['__class__'] = Py(lambda sk, node, *r, **k: rec_surface(made, None, None, None, rational, dict(k), 'constructed'), '__class__')
    made.append(b)
    return b


def sp3s(m, run):
    """SP3 for surfaces: split_surface_u / split_surface_v on recorder surfaces (non-square net, different degrees, exact rational knots,
    symbolic homogeneous points when rational): the two pieces are the two halves, along the split direction only, of the net refined to
    full multiplicity there; degrees, the other direction's knot vector and every row / column of the other direction are carried over"""
    from fractions import Fraction as F
    from .skel import Sym
    from .poly import Poly

    def boehm(P, kv, p, u):
        k = max(i for i in range(len(kv) - 1) if kv[i] <= u < kv[i + 1])
        s = sum(1 for x in kv if x == u)
        Q = []
        for i in range(len(P) + 1):
            if i <= k - p:
                Q.append(list(P[i]))
            elif i >= k - s + 1:
                Q.append(list(P[i - 1]))
            else:
                al = (u - kv[i]) / (kv[i + p] - kv[i])
                Q.append([P[i][c] * al + P[i - 1][c] * (1 - al) for c in range(len(P[0]))])
        return Q, sorted(kv + [u])
    degs = (2, 1)
    # (the two domains differ and each contains an end of the other as an interior knot: u over [1, 3] with the double knot 2 = end of v, v over
    # [0, 2] with the knot 1 = start of u - a guard that tests the other direction's domain refuses these legitimate splits)
    kvs = ([F(1)] * 3 + [F(4, 3), F(2), F(2)] + [F(3)] * 3, [F(0), F(0), F(1, 2), F(1), F(2), F(2)])
    su, sv = len(kvs[0]) - degs[0] - 1, len(kvs[1]) - degs[1] - 1
    for d, fname in ((0, 'split_surface_u'), (1, 'split_surface_v')):
        fi = m.func('operations.' + fname)
        bad, n = [], 0
        p, kv = degs[d], kvs[d]
        spans = sorted(set(kv[p:-p]))
        params = [(a_ + b_) / 2 for a_, b_ in zip(spans, spans[1:])] + sorted(set(kv[p + 1:-(p + 1)]))
        for rational in (False, True):
            hd = 3 if rational else 2
            G = [[[Poly.atom('P%d_%d_%d' % (i, j, c)) for c in range(hd)] for j in range(sv)] for i in range(su)]
            for u in params:
                s_ = sum(1 for x in kv if x == u)
                if s_ > p:
                    continue
                n += 1
                made = []
                obj = rec_surface(made, degs, kvs, [[[Sym(x) for x in pt] for pt in row] for row in G], rational)
                obj._a['domain'] = [(kvs[0][degs[0]], kvs[0][-(degs[0] + 1)]), (kvs[1][degs[1]], kvs[1][-(degs[1] + 1)])]
                sk = SK(m, {('linalg', 'point_distance'): STD_ABSTRACTED[('linalg', 'point_distance')]})
                sk.exact = True
                why = None
                try:
                    out = sk.call(fi, [obj, u], {})
                    # refine every line along direction d
                    lines = [[G[i][j] for i in range(su)] for j in range(sv)] if d == 0 else [[G[i][j] for j in range(sv)] for i in range(su)]
                    refined = []
                    for L in lines:
                        Q, kvq = [list(x) for x in L], list(kv)
                        for _ in range(p - s_):
                            Q, kvq = boehm(Q, kvq, p, u)
                        refined.append(Q)
                    lkv = [x for x in kvq if x < u] + [u] * (p + 1)
                    rkv = [u] * (p + 1) + [x for x in kvq if x > u]
                    nl = len(lkv) - p - 1
                    if not isinstance(out, (list, tuple)) or len(out) != 2:
                        why = 'does not return two pieces'
                    elif obj._a['_grid'] != [[[Sym(x) for x in pt] for pt in row] for row in G] and any(o is obj for o in out):
                        why = 'the input surface is returned as a piece'
                    else:
                        for name, piece, wkv, sl in zip(('first', 'second'), out, (lkv, rkv), (slice(0, nl), slice(nl - 1, None))):
                            a = piece._a
                            g = a.get('ctrlpts2d') if a.get('_grid') is None else a.get('ctrlpts2d')
                            other = 1 - d
                            if (a.get('degree_u'), a.get('degree_v')) != degs:
                                why = 'the %s piece has degrees (%r, %r)' % (name, a.get('degree_u'), a.get('degree_v'))
                            elif [F(x) for x in (a.get('knotvector_' + 'uv'[d]) or [])] != wkv:
                                why = 'the %s piece has the %s knot vector %s, expected %s' % (name, 'uv'[d], [str(x) for x in (a.get('knotvector_' + 'uv'[d]) or [])], [str(x) for x in wkv])
                            elif [F(x) for x in (a.get('knotvector_' + 'uv'[other]) or [])] != list(kvs[other]):
                                why = 'the %s piece does not carry the %s knot vector of the input over' % (name, 'uv'[other])
                            elif not isinstance(g, list):
                                why = 'the %s piece gets no 2-D control net' % name
                            else:
                                # want[u][v]
                                if d == 0:
                                    want = [[refined[j][i] for j in range(sv)] for i in range(len(refined[0]))][sl]
                                else:
                                    want = [refined[i][sl] for i in range(su)]
                                if len(g) != len(want) or any(len(r1) != len(r2) for r1, r2 in zip(g, want)):
                                    why = 'the %s piece has a %d x %s net, expected %d x %d' % (name, len(g), len(g[0]) if g and isinstance(g[0], list) else '?', len(want), len(want[0]))
                                else:
                                    for i, (r1, r2) in enumerate(zip(g, want)):
                                        for j, (gp, wp) in enumerate(zip(r1, r2)):
                                            for c in range(hd):
                                                sv_ = _as_sym(gp[c]) if len(gp) > c else None
                                                if sv_ is None or not sv_.same(Sym(wp[c])):
                                                    why = 'point [%d][%d] of the %s piece is %s; the refined net has %r there%s' % (
                                                        i, j, name, repr(gp)[:100], wp[c], ' (a rational surface is split in homogeneous coordinates)' if rational else '')
                                                    break
                                            if why:
                                                break
                                        if why:
                                            break
                            if why:
                                break
                except Violation as v:
                    why = '%s %s' % (v.msg, v.where())
                except Unsupported as ex:
                    raise AnalysisError('%s: interpreter met an unsupported construct: %s' % (fi.key, ex))
                if why:
                    bad.append(((str(u), rational), why))
        # the two ends of the domain of the split direction are rejected with an exception, the input left as it was
        for end in (kv[p], kv[-(p + 1)]):
            n += 1
            made = []
            G = [[[Poly.atom('P%d_%d_%d' % (i, j, c)) for c in range(2)] for j in range(sv)] for i in range(su)]
            obj = rec_surface(made, degs, kvs, [[[Sym(x) for x in pt] for pt in row] for row in G], False)
            obj._a['domain'] = [(kvs[0][degs[0]], kvs[0][-(degs[0] + 1)]), (kvs[1][degs[1]], kvs[1][-(degs[1] + 1)])]
            sk = SK(m, {('linalg', 'point_distance'): STD_ABSTRACTED[('linalg', 'point_distance')]})
            sk.exact = True
            try:
                sk.call(fi, [obj, end], {})
                bad.append(((str(end), False), 'a split at the %s of the %s domain is carried out; it must be rejected (one of the pieces would be empty)' % ('start' if end == kv[p] else 'end', 'uv'[d])))
            except Violation as v:
                if v.rule != 'RAISE':
                    bad.append(((str(end), False), '%s %s' % (v.msg, v.where())))
            except Unsupported as ex:
                raise AnalysisError('%s: interpreter met an unsupported construct: %s' % (fi.key, ex))
        run.ob('SP3.split-exact', '%s :: %d (parameter, rational) cases on a %d x %d net of degrees %s' % (fi.key, n, su, sv, degs), not bad,
               'pieces are the two halves, along the split direction, of the fully refined net' if not bad else
               'parameter %s, rational %s: %s   [%d of %d cases]' % (bad[0][0] + (bad[0][1], len(bad), n)), 'geomdl/operations.py:%d in %s' % (fi.node.lineno, fi.key))


# ====================================================================================== coordinates are stored as floats
def kd5(m, run, rule='KD5.coordinates-stored-as-floats'):
    """KD5 / GV2: set_ctrlpts of the shape classes (B-spline and rational) interpreted on an abstract shape with integer-valued input
    coordinates and a non-square net: every stored coordinate is a float and every stored point a list of its own (the per-row helpers
    A5.1 / A5.4 / A5.8 tell a row of points from a row of rows by `isinstance(x[0][0], float)`); the 2-D view of a surface holds, at
    [u][v], the very point list stored at v + size_v * u of the flat array; a rational shape accepts homogeneous points of the lowest
    admissible dimension (planar (x w, y w, w) for curves and surfaces)"""
    for mod in ('BSpline', 'NURBS'):
        for cname, pdim, degs, sizes in (('Curve', 1, (2,), (4,)), ('Surface', 2, (2, 1), (3, 2)), ('Volume', 3, (1, 1, 1), (2, 3, 2))):
            if (mod, cname) not in m.classes:
                continue
            fi = m.lookup((mod, cname), 'set_ctrlpts', 'methods')
            if fi is None:
                raise AnalysisError('%s.%s.set_ctrlpts not found' % (mod, cname))
            total = 1
            for s_ in sizes:
                total *= s_
            hd = 3 if mod == 'BSpline' else (4 if pdim == 3 else 3)
            given = [[i + 1, 2 * i, -i, 2][:hd] if mod == 'BSpline' or hd == 4 else [i + 1, 2 * i, 2] for i in range(total)]
            obj = abstract_shape(cname, pdim, degs, sizes, True, [])
            obj.__dict__['_cls'] = (mod, cname)
            obj._a.update(_control_points=[], _control_points_size=[0] * pdim, _dimension=0, _rational=(mod == 'NURBS'), _cache={'ctrlpts': [], 'weights': []})
            sk = SK(m, dict(STD_ABSTRACTED))
            key = '%s.%s.set_ctrlpts' % (mod, cname)
            why = None
            try:
                sk.call(fi, [obj, given] + (list(sizes) if pdim > 1 else []), {})
                st = obj._a['_control_points']
                if not isinstance(st, (list, tuple)) or len(st) != total:
                    why = 'stores %r points for %d given' % (len(st) if isinstance(st, (list, tuple)) else st, total)
                else:
                    for i, p_ in enumerate(st):
                        if not isinstance(p_, list) or any(p_ is g for g in given):
                            why = 'stored point %d is the caller\'s own list' % i
                            break
                        bad = [c for c in p_ if not isinstance(c, float)]
                        if bad or len(p_) != hd:
                            why = ('stored point %d keeps the integer coordinate %r as given: the knot helpers dispatch on isinstance(point[0], float), so inserting, refining or removing '
                                   'a knot of this shape takes the branch for rows of rows and fails' % (i, bad[0])) if bad else 'stored point %d has %d coordinates, %d were given' % (i, len(p_), hd)
                            break
                if why is None and pdim == 2:
                    g2 = obj._a.get('_control_points2D')
                    su, sv = sizes
                    if not (isinstance(g2, (list, tuple)) and len(g2) == su and all(isinstance(r_, (list, tuple)) and len(r_) == sv for r_ in g2)):
                        why = 'the 2-D view is not a %d x %d grid' % (su, sv)
                    else:
                        for u_ in range(su):
                            for v_ in range(sv):
                                if g2[u_][v_] is not st[v_ + sv * u_]:
                                    idx = next((k for k, p_ in enumerate(st) if p_ is g2[u_][v_]), None)
                                    why = 'the 2-D view holds at [%d][%d] %s; the flat array stores that point at v + size_v * u = %d' % (
                                        u_, v_, 'the point stored at flat index %d' % idx if idx is not None else 'a list that is not a point of the flat array', v_ + sv * u_)
                                    break
                            if why:
                                break
            except Violation as v:
                why = ('%s %s' % (v.msg, v.where())) + (' (a planar rational shape has homogeneous points (x w, y w, w))' if mod == 'NURBS' and v.rule == 'RAISE' else '')
            except Unsupported as ex:
                raise AnalysisError('%s: interpreter met an unsupported construct: %s' % (key, ex))
            run.ob(rule, key, why is None, 'floats in fresh lists%s' % ('; 2-D view [u][v] is flat[v + size_v * u]' if pdim == 2 else '') if why is None else why,
                   'geomdl/%s.py:%d in %s' % (fi.mod, fi.node.lineno, fi.key))


# ====================================================================================== C08: degree_operations on recorder curves
def do2(m, run):
    """DO2: operations.degree_operations on a recorder curve, with decompose_curve, the two degree helpers and link_curves replaced by
    recorders: every Bezier piece [a..a, b..b] of degree p gets, for an elevation by t (t = 1 .. p + 3, counts above p + 1 included), the
    helper's result for (p, its points, num=t), degree p + t and the knot vector a x (p+1+t), b x (p+1+t); for a reduction the helper's
    result, degree p - 1 and a x p, b x p; the pieces handed to link_curves are those pieces; the input gets the new degree"""
    from fractions import Fraction as F
    fi = m.func('operations.degree_operations')
    bad, n = [], 0
    for p in (1, 2, 3):
        for t in list(range(1, p + 4)) + ([-1] if p >= 2 else []):
            n += 1
            made = []
            bounds = [F(0), F(1, 2), F(2)]
            pieces = []
            for i in range(2):
                c = rec_curve(made, p, [bounds[i]] * (p + 1) + [bounds[i + 1]] * (p + 1), [[('pt', i, k, c_) for c_ in range(2)] for k in range(p + 1)], False)
                pieces.append(c)
            obj = rec_curve(made, p, [F(0)] * (p + 1) + [F(1, 2)] + [F(2)] * (p + 1), [[('in', k, c_) for c_ in range(2)] for k in range(p + 2)], False)
            calls, linked = [], []

            def dec(sk, node, o_, *a, **k):
                if o_ is not obj:
                    raise Violation('DO2', 'decompose_curve is called on another object than the input', node)
                return list(pieces)

            def elev(sk, node, degree, cpts, *a, **k):
                calls.append(('elev', degree, cpts, k.get('num', a[0] if a else 1)))
                return [[('E', len(calls), i, c_) for c_ in range(2)] for i in range(len(cpts) + k.get('num', a[0] if a else 1))]

            def redu(sk, node, degree, cpts, *a, **k):
                calls.append(('red', degree, cpts, None))
                return [[('R', len(calls), i, c_) for c_ in range(2)] for i in range(len(cpts) - 1)]

            def link(sk, node, *crvs, **k):
                linked.extend(crvs)
                return ([F(0)], [[0.0, 0.0]], [], [])
            ab = dict(STD_ABSTRACTED)
            ab[('operations', 'decompose_curve')] = Py(dec, 'decompose_curve')
            ab[('helpers', 'degree_elevation')] = Py(elev, 'degree_elevation')
            ab[('helpers', 'degree_reduction')] = Py(redu, 'degree_reduction')
            ab[('_operations', 'link_curves')] = Py(link, 'link_curves')
            sk = SK(m, ab)
            why = None
            try:
                sk.call(fi, [obj, [t]], {})
                if len(calls) != 2:
                    why = 'the degree helper is called %d times for 2 Bezier pieces' % len(calls)
                elif linked != pieces:
                    why = 'link_curves does not receive the processed pieces in order'
                else:
                    for i, (c, call) in enumerate(zip(pieces, calls)):
                        a = c._a
                        a0, b0 = bounds[i], bounds[i + 1]
                        np_ = p + t if t > 0 else p - 1
                        want_kv = [a0] * (np_ + 1) + [b0] * (np_ + 1)
                        if call[0] != ('elev' if t > 0 else 'red') or call[1] != p or (t > 0 and call[3] != t):
                            why = 'piece %d: the helper is called as %s(degree=%r, num=%r); expected %s of degree %d%s' % (i, call[0], call[1], call[3], 'elevation' if t > 0 else 'reduction', p, ' by %d' % t if t > 0 else '')
                        elif [x[0][:3] if isinstance(x[0], tuple) else None for x in call[2]] != [('pt', i, k) for k in range(p + 1)]:
                            why = 'piece %d: the helper receives other points than the control points of that piece' % i
                        elif a.get('degree') != np_:
                            why = 'piece %d gets degree %r, expected %d' % (i, a.get('degree'), np_)
                        elif [(F(x.val) if isinstance(x, Tok) and x.kind == 'PH0' and x.val is not None else (None if isinstance(x, Tok) else F(x))) for x in (a.get('knotvector') or [])] != want_kv:
                            why = 'piece %d gets the knot vector %s; a Bezier piece of degree %d on [%s, %s] has %s' % (
                                i, [str(x.val) if isinstance(x, Tok) and x.kind == 'PH0' else str(x) for x in (a.get('knotvector') or [])], np_, a0, b0, [str(x) for x in want_kv])
                        elif not (isinstance(a.get('_set'), list) and a['_set'] and a['_set'][0][0][0] == ('E' if t > 0 else 'R') and a['_set'][0][0][1] == i + 1):
                            why = 'piece %d does not receive the points the helper returned for it' % i
                        if why:
                            break
                    if why is None and obj._a.get('degree') != (p + t if t > 0 else p - 1):
                        why = 'the input curve ends with degree %r, expected %d' % (obj._a.get('degree'), p + t if t > 0 else p - 1)
            except Violation as v:
                why = '%s %s' % (v.msg, v.where())
            except Unsupported as ex:
                raise AnalysisError('%s: interpreter met an unsupported construct: %s' % (fi.key, ex))
            if why:
                bad.append(((p, t), why))
    run.ob('DO2.degree-operations-on-recorder-curves', '%s :: %d (degree, count) cases' % (fi.key, n), not bad, 'every Bezier piece gets its helper result, the new degree and a x (d+1), b x (d+1)' if not bad else
           'degree %d, %s: %s   [%d of %d cases]' % (bad[0][0][0], 'elevation by %d' % bad[0][0][1] if bad[0][0][1] > 0 else 'reduction', bad[0][1], len(bad), n),
           'geomdl/operations.py:%d in %s' % (fi.node.lineno, fi.key))


# ====================================================================================== C13 / C12: transpose through the real setters
def tp2(m, run, rule='TP2.transpose-through-the-setters'):
    """TP2: operations.transpose interpreted (in place) on an abstract surface whose own property setters are interpreted too (degree,
    2-D net, knot vectors with their validation): for nets where one direction has fewer points than the other direction's degree + 1
    (3 x 6 with degrees 2, 4 and 2 x 4 with degrees 1, 3) no setter rejects an intermediate state, and afterwards degrees, sizes and knot
    vectors are exchanged and the point at (u, v) of the new net is the old point at (v, u)"""
    fi = m.func('operations.transpose')
    for degs, sizes in (((2, 4), (3, 6)), ((1, 3), (2, 4)), ((2, 2), (3, 4))):
        record = []
        obj = abstract_shape('Surface', 2, degs, sizes, False, record)
        ranks = [[0] * (p + 1) + list(range(1, n - p)) + [n - p] * (p + 1) for p, n in zip(degs, sizes)]
        kv0 = [[Ord(r) for r in rk] for rk in ranks]
        obj._a['_knot_vector'] = [list(k) for k in kv0]
        su, sv = sizes
        flat = pts(su * sv, 3, labelled=True)
        obj._a['_control_points'] = flat
        obj._a['_control_points2D'] = [[flat[v_ + sv * u_] for v_ in range(sv)] for u_ in range(su)]
        obj._a['__iter__'] = [obj]
        obj._a['_iter_index'] = 0
        sk = SK(m, dict(STD_ABSTRACTED))
        key = 'operations.transpose :: %d x %d net, degrees %s' % (su, sv, degs)
        why = None
        try:
            sk.call(fi, [obj], {'inplace': True})
            a = obj._a
            if list(a['_degree']) != [degs[1], degs[0]]:
                why = 'degrees end as %s, expected %s' % (list(a['_degree']), [degs[1], degs[0]])
            elif list(a['_control_points_size']) != [sv, su]:
                why = 'sizes end as %s, expected %s' % (list(a['_control_points_size']), [sv, su])
            elif [[k.rank for k in kv] for kv in a['_knot_vector']] != [ranks[1], ranks[0]]:
                why = 'the knot vectors are not exchanged'
            else:
                cp = a['_control_points']
                for u_ in range(sv):
                    for v_ in range(su):
                        f = footprint(cp[v_ + su * u_]) if v_ + su * u_ < len(cp) else None
                        want = u_ + sv * v_
                        if f != frozenset([want]):
                            why = 'the point at (u, v) = (%d, %d) of the transposed net is the old flat index %s, expected the old point at (v, u), flat index %d' % (u_, v_, sorted(f) if f else f, want)
                            break
                    if why:
                        break
        except Violation as v:
            why = ('%s %s' % (v.msg, v.where())) + (' - a setter rejects an intermediate state of the transposition although the surface is valid before and after' if v.rule == 'RAISE' else '')
        except Unsupported as ex:
            raise AnalysisError('%s: interpreter met an unsupported construct: %s' % (key, ex))
        run.ob(rule, key, why is None, 'degrees, sizes, knot vectors exchanged; new (u, v) = old (v, u); no setter objects on the way' if why is None else why, 'geomdl/operations.py:%d in %s' % (fi.node.lineno, fi.key))


# ====================================================================================== C13: sweeping through the real accessors
def sw2(m, run, rule='SW2.sweep-keeps-weights-and-definition'):
    """SW2: sweeping.sweep_vector interpreted on abstract curves (B-spline and rational, the real accessors and __deepcopy__ of the classes
    interpreted, coordinates exact) with the constructors replaced by recorders: the two sections handed to construct_surface are the
    input and a shape of the same class, degree and knot vector whose control point i is the input's point i moved by the vector - for a
    rational curve with the same weight, i.e. homogeneous ((x + vx) w, (y + vy) w, w)"""
    from .skel import Sym
    from .poly import Poly
    fi = m.func('sweeping.sweep_vector')
    for mod in ('BSpline', 'NURBS'):
        rat = mod == 'NURBS'
        n, p = 4, 2
        hd = 3 if rat else 2
        P = [[Poly.atom('P%d_%d' % (i, c)) for c in range(hd)] for i in range(n)]          # homogeneous (xw, yw, w) when rational
        obj = abstract_shape('Curve', 1, (p,), (n,), False, [])
        obj.__dict__['_cls'] = (mod, 'Curve')
        obj._a.update(_control_points=[[Sym(x) for x in row] for row in P], _dimension=hd, _rational=rat, _cache={'ctrlpts': [], 'weights': []}, _name='c', _opt_data={},
                      _geometry_type='curve', _id=0, _iter_index=0, _idt={}, _vis_component=None, _span_func=None, _insert_knot_func=None, _remove_knot_func=None)
        obj._a['_tsl_component'] = None
        kranks = [0] * (p + 1) + list(range(1, n - p)) + [n - p] * (p + 1)
        obj._a['_knot_vector'] = [[Ord(r) for r in kranks]]
        got = []
        ab = dict(STD_ABSTRACTED)
        ab[('construct', 'construct_surface')] = Py(lambda sk, node, direction, *sections, **k: got.append((direction, sections, k)) or 'surface', 'construct_surface')
        ab[('construct', 'construct_volume')] = Py(lambda sk, node, direction, *sections, **k: got.append((direction, sections, k)) or 'volume', 'construct_volume')
        ab[('knotvector', 'normalize')] = Py(lambda sk, node, kv, *a, **k: [Ord(x.rank) for x in kv], 'knotvector.normalize')      # order-preserving
        sk = SK(m, ab)
        sk.exact = True
        sk.follow_deepcopy = True
        sk.construct = True
        vec = [Sym('v0'), Sym('v1')]
        key = 'sweeping.sweep_vector :: %s.Curve' % mod
        why = None
        try:
            sk.call(fi, [obj, vec], {})
            if len(got) != 1 or len(got[0][1]) != 2:
                why = 'construct_surface is not called once with two sections'
            else:
                a_, b_ = got[0][1]
                if a_ is not obj:
                    why = 'the first section is not the input curve'
                elif not isinstance(b_, Bag) or b_ is obj or b_._cls != obj._cls:
                    why = 'the second section is not a new shape of the class of the input'
                elif list(b_._a.get('_degree', [])) != [p] or [getattr(k, 'rank', None) for k in b_._a['_knot_vector'][0]] != kranks:
                    why = 'the second section does not have the degree / knot vector of the input'
                else:
                    cp = b_._a['_control_points']
                    if len(cp) != n:
                        why = 'the second section has %d control points' % len(cp)
                    for i in range(n):
                        if why:
                            break
                        for c in range(hd):
                            if rat:
                                w = P[i][2]
                                want = Sym(P[i][c] + Poly.atom('v%d' % c) * w) if c < 2 else Sym(w)
                            else:
                                want = Sym(P[i][c] + Poly.atom('v%d' % c))
                            s = _as_sym(cp[i][c]) if len(cp[i]) > c else None
                            if s is None or not s.same(want):
                                why = 'control point %d of the swept section has %s in slot %d, expected %r%s' % (
                                    i, repr(cp[i][c])[:80] if len(cp[i]) > c else 'nothing', c, want, ' (the weights of the input are lost)' if rat else '')
                                break
        except Violation as v:
            why = '%s %s' % (v.msg, v.where())
        except Unsupported as ex:
            raise AnalysisError('%s: interpreter met an unsupported construct: %s' % (key, ex))
        run.ob(rule, key, why is None, 'second section = input moved by the vector, same class / degree / knots / weights' if why is None else why,
               'geomdl/sweeping.py:%d in %s' % (fi.node.lineno, fi.key))


# ====================================================================================== C14: trims of every importable kind are accepted
def trm2(m, run, rule='TRM2.every-importable-trim-kind-is-accepted'):
    """TRM2: abstract.Surface.add_trim (reached through the `trims` setter the importers use) interpreted on an abstract surface with a
    trim of every kind the JSON / cfg importers can build - spline curve, rational curve, freeform, curve container - each constructed by
    interpreting the class's own __init__ chain and given the dimension 2: every kind is accepted and appended; the same kinds with
    dimension 3 are rejected.  (A guard that reads an attribute only some kinds define breaks the import of a file with that kind of trim.)"""
    fi = m.lookup(('BSpline', 'Surface'), 'add_trim', 'methods')
    if fi is None:
        raise AnalysisError('Surface.add_trim not found')
    kinds = (('BSpline', 'Curve'), ('NURBS', 'Curve'), ('freeform', 'Freeform'), ('multi', 'CurveContainer'))
    for key_ in kinds:
        if key_ not in m.classes:
            raise AnalysisError('trim kind %s.%s not found' % key_)
        for dim in (2, 3):
            sk = SK(m, dict(STD_ABSTRACTED))
            sk.construct = True
            key = 'abstract.Surface.add_trim :: %s.%s of dimension %d' % (key_[0], key_[1], dim)
            why = None
            try:
                trim = sk.apply(('class', key_), [], {}, None)
                # what a loaded trim of that kind has: a spatial dimension (rational shapes store it with the weight slot)
                trim._a['_dimension'] = dim + (1 if key_ == ('NURBS', 'Curve') else 0)
                surf = abstract_shape('Surface', 2, (2, 1), (4, 5), True, [])
                try:
                    sk.call(fi, [surf, trim], {})
                    accepted = trim in surf._a['_trims']
                    rejected = False
                except Violation as v:
                    if v.rule != 'RAISE':
                        raise
                    accepted, rejected = False, True
                if dim == 2 and not accepted:
                    why = 'a 2-dimensional %s is %s' % (key_[1], 'rejected' if rejected else 'not appended to the trims')
                elif dim == 3 and not rejected:
                    why = 'a 3-dimensional %s is accepted as a trim of the parametric (u, v) plane' % key_[1]
            except Violation as v:
                why = '%s %s - the guard reads something this kind of trim does not define: a file with such a trim can no longer be imported' % (v.msg, v.where())
            except Unsupported as ex:
                raise AnalysisError('%s: interpreter met an unsupported construct: %s' % (key, ex))
            run.ob(rule, key, why is None, 'accepted' if dim == 2 and why is None else ('rejected' if why is None else why), 'geomdl/%s.py:%d in %s' % (fi.mod, fi.node.lineno, fi.key))


# ====================================================================================== C14: dictionary round trip through the real classes
def jr2(m, run, rule='JR2.dictionary-round-trip-on-real-classes'):
    """JR2: a rational curve, surface (non-square, different degrees) and volume are built by interpreting the classes' own constructors and
    setters on exact data (symbolic homogeneous control points, order-token knots, a non-default delta, name, id); _exchange.export_dict_*
    and import_dict_* are then interpreted one after the other: the imported object has the degrees, sizes, knot vectors, homogeneous
    control points (compared as exact rational functions, position by position) and delta of the exported one"""
    from .skel import Sym
    from .poly import Poly
    cases = (('crv', 'Curve', (2,), (4,)), ('surf', 'Surface', (2, 1), (3, 4)), ('vol', 'Volume', (1, 2, 1), (2, 3, 2)))
    # (third family: rational shapes whose weights are all one and the same non-unit value - equal weights are still weights)
    for tag, cname, degs, sizes, mod in [c_ + ('NURBS',) for c_ in cases] + [c_ + ('BSpline',) for c_ in cases] + [c_ + ('NURBS-uniform',) for c_ in cases]:
        uniform = mod == 'NURBS-uniform'
        mod = 'NURBS' if uniform else mod
        pdim = len(degs)
        total = 1
        for s_ in sizes:
            total *= s_
        ab = dict(STD_ABSTRACTED)
        ab[('knotvector', 'normalize')] = Py(lambda sk, node, kv, *a, **k: [Ord(x.rank) for x in kv], 'knotvector.normalize')
        key = '_exchange.export_dict_%s -> import_dict_%s' % (tag, tag) + (' :: one weight for all points' if uniform else '')

        def mk_sk(ab=ab):
            sk_ = SK(m, ab)
            sk_.exact = True
            sk_.construct = True
            return sk_

        def scenario(sk, tag=tag, cname=cname, degs=degs, sizes=sizes, mod=mod, pdim=pdim, total=total, key=key, uniform=uniform):
            why = None
            src = sk.apply(('class', (mod, cname)), [], {}, None)
            W_ = Sym('W')
            # (a B-spline shape is exported without weights and comes back as a rational shape with unit weights)
            Pw = [[Sym('P%d_%d' % (i, c)) for c in range(3)] + [W_] for i in range(total)] if uniform else [[Sym('P%d_%d' % (i, c)) for c in range(4)] for i in range(total)] if mod == 'NURBS' else [[Sym('P%d_%d' % (i, c)) for c in range(3)] + [Sym(Poly.const(1))] for i in range(total)]
            suffix = [''] if pdim == 1 else ['_' + 'uvw'[d] for d in range(pdim)]

            def setp(obj, name, value):
                fi_ = m.lookup(obj._cls, name, 'setters')
                if fi_ is None:
                    raise AnalysisError('%s: no setter %s on %s.%s' % (key, name, mod, cname))
                sk.call(fi_, [obj, value], {})

            def getp(obj, name):
                fi_ = m.lookup(obj._cls, name, 'getters')
                if fi_ is None:
                    raise AnalysisError('%s: no getter %s on %s.%s' % (key, name, mod, cname))
                return sk.call(fi_, [obj], {})
            for d in range(pdim):
                setp(src, 'degree' + suffix[d], degs[d])
            sc_ = m.lookup(src._cls, 'set_ctrlpts', 'methods')
            sk.call(sc_, [src, [list(p_) if mod == 'NURBS' else list(p_[:3]) for p_ in Pw]] + (list(sizes) if pdim > 1 else []), {})
            ranks = [[0] * (p + 1) + list(range(1, n - p)) + [n - p] * (p + 1) for p, n in zip(degs, sizes)]
            for d in range(pdim):
                setp(src, 'knotvector' + suffix[d], [Ord(r) for r in ranks[d]])
            setp(src, 'delta', 0.125)
            setp(src, 'name', 'the shape')
            setp(src, 'id', 7)
            trims = []
            if tag == 'surf':
                # one trim of every kind the format carries: a spline curve, a freeform, a container holding a spline curve
                def trim_curve(label):
                    c_ = sk.apply(('class', ('BSpline', 'Curve')), [], {}, None)
                    setp(c_, 'degree', 1)
                    sk.call(m.lookup(c_._cls, 'set_ctrlpts', 'methods'), [c_, [[Sym('%s%d_%d' % (label, i, c)) for c in range(2)] for i in range(3)]], {})
                    setp(c_, 'knotvector', [Ord(r) for r in (0, 0, 1, 2, 2)])
                    return c_
                t1 = trim_curve('T')
                t2 = sk.apply(('class', ('freeform', 'Freeform')), [], {}, None)
                sk.call(m.lookup(t2._cls, 'evaluate', 'methods'), [t2], {'points': [[Sym('F%d_%d' % (i, c)) for c in range(2)] for i in range(4)]})
                t3 = sk.apply(('class', ('multi', 'CurveContainer')), [], {}, None)
                sk.call(m.lookup(t3._cls, 'add', 'methods'), [t3, trim_curve('U')], {})
                trims = [t1, t2, t3]
                setp(src, 'trims', trims)
            data = sk.call(m.func('_exchange.export_dict_' + tag), [src], {})
            if not isinstance(data, dict):
                why = 'export does not return a dictionary'
            else:
                back = sk.call(m.func('_exchange.import_dict_' + tag), [data], {})
                if isinstance(back, Bag):
                    run.extra.setdefault('imported_kv_normalize', {})['_exchange.import_dict_' + tag] = back._a.get('_kv_normalize')
                a, b = src._a, back._a
                if not isinstance(back, Bag) or back is src:
                    why = 'import does not return a new shape'
                elif list(b.get('_degree', [])) != list(degs):
                    why = 'degrees come back as %s, exported %s' % (list(b.get('_degree', [])), list(degs))
                elif list(b.get('_control_points_size', [])) != list(sizes):
                    why = 'sizes come back as %s, exported %s' % (list(b.get('_control_points_size', [])), list(sizes))
                elif [[getattr(k, 'rank', None) for k in kv] for kv in b.get('_knot_vector', [])] != ranks:
                    why = 'the knot vectors do not come back in their own directions'
                else:
                    cp = b.get('_control_points', [])
                    if len(cp) != total:
                        why = '%d control points come back, %d were exported' % (len(cp), total)
                    for i in range(total):
                        if why:
                            break
                        for c in range(4):
                            s = _as_sym(cp[i][c]) if len(cp[i]) > c else None
                            if s is None or not s.same(Pw[i][c]):
                                why = 'homogeneous control point %d slot %d comes back as %s, exported %r' % (i, c, repr(cp[i][c])[:90] if len(cp[i]) > c else 'nothing', Pw[i][c])
                                break
                    if why is None:
                        # ... and the public views of the imported shape report it too
                        wv, uv = getp(back, 'weights'), getp(back, 'ctrlpts')
                        for i in range(total):
                            sw_ = _as_sym(wv[i]) if isinstance(wv, (list, tuple)) and len(wv) > i else None
                            if sw_ is None or not sw_.same(Pw[i][3]):
                                why = 'the weights getter of the imported shape reports %s for point %d, the file has %r' % (repr(wv[i])[:60] if isinstance(wv, (list, tuple)) and len(wv) > i else wv, i, Pw[i][3])
                                break
                            for c in range(3):
                                su_ = _as_sym(uv[i][c]) if isinstance(uv, (list, tuple)) and len(uv) > i and len(uv[i]) > c else None
                                if su_ is None or not su_.same(Sym(Pw[i][c].p, Pw[i][3].p)):
                                    why = 'the ctrlpts getter of the imported shape reports %s for point %d coordinate %d, the file has %r / %r' % (
                                        repr(uv[i][c])[:60] if su_ is not None else 'nothing', i, c, Pw[i][c], Pw[i][3])
                                    break
                            if why:
                                break
                    if why is None and trims:
                        bt = getp(back, 'trims')
                        if not isinstance(bt, (list, tuple)) or len(bt) != len(trims):
                            why = '%r trims come back, %d were exported (a spline curve, a freeform, a curve container)' % (len(bt) if isinstance(bt, (list, tuple)) else bt, len(trims))
                        else:
                            kinds = [x._cls[1] if isinstance(x, Bag) and isinstance(x._cls, tuple) else None for x in bt]
                            if kinds != ['Curve', 'Freeform', 'CurveContainer']:
                                why = 'the trims come back as %s, exported Curve, Freeform, CurveContainer' % kinds
                            else:
                                tc = getp(bt[0], 'ctrlpts')
                                ok_t = isinstance(tc, (list, tuple)) and len(tc) == 3 and all(_as_sym(tc[i][c]) is not None and _as_sym(tc[i][c]).same(Sym('T%d_%d' % (i, c))) for i in range(3) for c in range(2))
                                fp_ = bt[1]._a.get('_eval_points')
                                ok_f = isinstance(fp_, (list, tuple)) and len(fp_) == 4 and all(_as_sym(fp_[i][c]) is not None and _as_sym(fp_[i][c]).same(Sym('F%d_%d' % (i, c))) for i in range(4) for c in range(2))
                                if not ok_t:
                                    why = 'the spline trim does not come back with its control points'
                                elif not ok_f:
                                    why = 'the freeform trim does not come back with its points'
                    if why is None:
                        da, db = getp(src, 'delta'), getp(back, 'delta')
                        if da != db:
                            why = 'delta comes back as %r, exported %r (the sampling density is part of what the format carries)' % (db, da)

            return why
        try:
            why = forked(mk_sk, scenario, key)
        except Unsupported as ex:
            raise AnalysisError('%s: interpreter met an unsupported construct: %s' % (key, ex))

        run.ob(rule, key + ' :: %s.%s' % (mod, cname), why is None, 'degrees, sizes, knots, homogeneous points (exact), delta, id come back unchanged' if why is None else why,
               'geomdl/_exchange.py in _exchange.export_dict_%s / import_dict_%s' % (tag, tag))


def ops2_guard(m, run, fname, helper, sign):
    """OPS2.guard: operations.insert_knot / remove_knot on the abstract shapes of OPS2 with requests at the multiplicity limit of every
    direction (different degrees per direction): a count of exactly degree - multiplicity (insertion) / exactly the multiplicity (removal)
    is carried out, one more is rejected with an exception before anything is written - net, sizes and knot vectors untouched, the
    per-row helper not called.  Spelling-independent form of GD2 (whatever helper the test has been moved into)."""
    cases = (('Curve', 1, (2,), (4,), [[0, 0, 0, 1, 2, 2, 2]]),
             ('Surface', 2, (2, 1), (4, 5), [[0, 0, 0, 1, 2, 2, 2], [0, 0, 1, 2, 3, 4, 4]]),
             ('Volume', 3, (1, 3, 2), (3, 5, 5), [[0, 0, 1, 2, 2], [0, 0, 0, 0, 1, 2, 2, 2, 2], [0, 0, 0, 1, 2, 3, 3, 3]]))
    for cname, pdim, degs, sizes, ranks in cases:
        for d in range(pdim):
            # insertion strictly inside the first span: multiplicity 0, limit = degree; removal of the first interior knot: multiplicity 1, limit 1
            limit = degs[d] if sign > 0 else 1
            for num, admissible in ((limit, True), (limit + 1, False)):
                record = []
                obj = abstract_shape(cname, pdim, degs, sizes, False, record)
                kv0 = [[Ord(r) for r in rk] for rk in ranks]
                obj._a['_knot_vector'] = [list(k) for k in kv0]
                total = 1
                for s_ in sizes:
                    total *= s_
                cp0 = pts(total, 3, labelled=True)
                obj._a['_control_points'] = cp0
                if pdim == 2:
                    obj._a['_control_points2D'] = [[cp0[v_ + sizes[1] * u_] for v_ in range(sizes[1])] for u_ in range(sizes[0])]
                setc = []

                def set_ctrlpts(sk, node, cp, *sz, _o=obj, _s=setc, **k):
                    _s.append(tuple(sz))
                    _o._a['_control_points'] = cp
                    _o._a['_control_points_size'] = list(sz) if sz else [len(cp)]
                obj._a['set_ctrlpts'] = Py(set_ctrlpts, 'set_ctrlpts')
                helped = []

                def stub(sk, node, deg, kv, rows, u=None, _h=helped, **k):
                    n_ = k.get('num', 1)
                    _h.append(n_)
                    return ([rows[0]] * n_ + list(rows)) if sign > 0 else list(rows)[n_:]
                ab = dict(STD_ABSTRACTED)
                ab[('helpers', helper)] = Py(stub, helper)
                param, nums = [None] * pdim, [0] * pdim
                param[d] = Ord(0.5) if sign > 0 else Ord(1)
                nums[d] = num
                sk = SK(m, ab)
                key = 'operations.%s :: BSpline.%s, direction %s, count %d (%s)' % (fname, cname, 'uvw'[d], num, 'the limit' if admissible else 'one above the limit')
                why = None
                rejected = False
                try:
                    sk.call(m.func('operations.' + fname), [obj, param, nums], {})
                except Violation as v:
                    if v.rule == 'RAISE':
                        rejected = True
                    else:
                        why = '%s %s' % (v.msg, v.where())
                except Unsupported as ex:
                    raise AnalysisError('%s: interpreter met an unsupported construct: %s' % (key, ex))
                if why is None:
                    if admissible:
                        if rejected:
                            why = 'a count of exactly %s is rejected (the guard compares with the degree / multiplicity of another direction, or with the wrong inequality)' % (
                                'degree - multiplicity' if sign > 0 else 'the multiplicity')
                        elif helped and any(h != num for h in helped) or not helped:
                            why = 'the per-row helper is called with the counts %s, requested %d' % (sorted(set(helped)), num)
                    else:
                        untouched = obj._a['_control_points'] is cp0 and [[k.rank for k in kv] for kv in obj._a['_knot_vector']] == ranks and not setc
                        if not rejected:
                            why = 'a count one above %s is carried out instead of being rejected' % ('degree - multiplicity' if sign > 0 else 'the multiplicity')
                        elif not untouched or helped:
                            why = 'the request is rejected only after the shape has been written to (or the helper has run): the object is not left unchanged'
                run.ob('OPS2.multiplicity-limit-on-abstract-net', key, why is None, 'carried out' if admissible and why is None else ('rejected, shape untouched' if why is None else why),
                       'geomdl/operations.py in operations.%s' % fname)


def do3(m, run):
    """DO3 (the definition protocol): operations.degree_operations with its Bezier pieces and its input being abstract curves whose *real*
    setters are interpreted (degree, set_ctrlpts with its count-against-degree validation, knotvector with its length / order check):
    for a curve of one and of two Bezier segments, for elevation by 1 .. p + 2 and for reduction, no setter rejects an intermediate state -
    i.e. every object gets its new degree first, then its control points, then its knot vector - and every object ends up consistent
    (count = len(knots) - degree - 1)"""
    import itertools
    fi = m.func('operations.degree_operations')
    bad, n = [], 0
    for p, npieces in itertools.product((2, 3), (1, 2)):
        for t in list(range(1, p + 3)) + [-1]:
            n += 1
            nd = p + t if t > 0 else p - 1

            def bez(a, b, deg):
                c = abstract_shape('Curve', 1, (deg,), (deg + 1,), False, [])
                c._a['_knot_vector'] = [[Ord(a)] * (deg + 1) + [Ord(b)] * (deg + 1)]
                c._a['_control_points'] = pts(deg + 1, 3, labelled=True)
                c._a['_iter_index'] = 0
                return c

            def joined(deg):
                kv = [Ord(0)] * (deg + 1)
                for j in range(1, npieces):
                    kv += [Ord(j)] * deg
                return kv + [Ord(npieces)] * (deg + 1), npieces * deg + 1
            pieces = [bez(j, j + 1, p) for j in range(npieces)]
            kv0, n0 = joined(p)
            obj = abstract_shape('Curve', 1, (p,), (n0,), False, [])
            obj._a['_knot_vector'] = [kv0]
            kv1, n1 = joined(nd)
            ab = dict(STD_ABSTRACTED)
            ab[('operations', 'decompose_curve')] = Py(lambda sk, node, o_, *a, **k: list(pieces), 'decompose_curve')
            ab[('helpers', 'degree_elevation')] = Py(lambda sk, node, degree, cpts, *a, **k: pts(len(cpts) + k.get('num', a[0] if a else 1), 3), 'degree_elevation')
            ab[('helpers', 'degree_reduction')] = Py(lambda sk, node, degree, cpts, *a, **k: pts(len(cpts) - 1, 3), 'degree_reduction')
            ab[('_operations', 'link_curves')] = Py(lambda sk, node, *crvs, **k: (list(kv1), pts(n1, 3), [], []), 'link_curves')
            sk = SK(m, ab)
            why = None
            try:
                sk.call(fi, [obj, [t]], {})
                for name, c in [('segment %d' % (j + 1), c_) for j, c_ in enumerate(pieces)] + [('the input curve', obj)]:
                    a = c._a
                    deg, ncp, nk = a['_degree'][0], len(a['_control_points']), len(a['_knot_vector'][0])
                    if deg != nd:
                        why = '%s ends with degree %r, expected %d' % (name, deg, nd)
                    elif nk != ncp + deg + 1:
                        why = '%s ends inconsistent: %d control points, degree %d, %d knots' % (name, ncp, deg, nk)
                    if why:
                        break
            except Violation as v:
                why = ('%s %s' % (v.msg, v.where())) + (' - a setter rejects an intermediate state: degree, control points and knot vector must be assigned in this order' if v.rule == 'RAISE' else '')
            except Unsupported as ex:
                raise AnalysisError('%s: interpreter met an unsupported construct: %s' % (fi.key, ex))
            if why:
                bad.append(((p, npieces, t), why))
    run.ob('DO3.definition-protocol-through-the-setters', '%s :: %d (degree, segments, change) cases' % (fi.key, n), not bad,
           'no setter rejects an intermediate state; every object ends consistent' if not bad else
           'degree %d, %d segment(s), %s: %s   [%d of %d cases]' % (bad[0][0][0], bad[0][0][1], 'elevation by %d' % bad[0][0][2] if bad[0][0][2] > 0 else 'reduction', bad[0][1], len(bad), n),
           'geomdl/operations.py:%d in %s' % (fi.node.lineno, fi.key))


# ====================================================================================== C09 / C19: the three control point views through the real setters
def ws5(m, run, rule='WS5.views-agree-through-the-real-setters'):
    """WS5: a rational curve, surface (non-square) and volume are built by interpreting the classes' own constructors; with exact symbolic
    data the three views are then driven through the real accessors: (a) after ctrlptsw = Pw the getters give ctrlpts[i][c] = Pw[i][c] /
    Pw[i][-1] and weights[i] = Pw[i][-1]; (b) after ctrlpts = Y the weights are kept and ctrlptsw[i] = (Y[i] w_i, w_i); (c) after
    weights = V the points are kept and ctrlptsw[i] = (Y[i] V_i, V_i); (d) on a fresh object ctrlpts = Y gives unit weights; (b', c') the same when no view was read since the last assignment (empty caches); (e) a list
    obtained from the ctrlpts / weights getter, edited in place and assigned back is stored (not dropped as "unchanged"); (f) every getter
    re-reads after every assignment (no stale cached view)"""
    from .skel import Sym
    from .poly import Poly
    cases = (('Curve', (2,), (4,)), ('Surface', (2, 1), (3, 4)), ('Volume', (1, 2, 1), (2, 3, 2)))
    for cname, degs, sizes in cases:
        pdim = len(degs)
        total = 1
        for s_ in sizes:
            total *= s_
        key = 'NURBS.%s :: ctrlptsw / ctrlpts / weights' % cname
        why = None
        ab = dict(STD_ABSTRACTED)
        sk = SK(m, ab)
        sk.exact = True
        sk.construct = True
        suffix = [''] if pdim == 1 else ['_' + 'uvw'[d] for d in range(pdim)]

        def setp(obj, name, value):
            fi_ = m.lookup(obj._cls, name, 'setters')
            if fi_ is None:
                raise AnalysisError('%s: no setter %s' % (key, name))
            sk.call(fi_, [obj, value], {})

        def getp(obj, name):
            fi_ = m.lookup(obj._cls, name, 'getters')
            if fi_ is None:
                raise AnalysisError('%s: no getter %s' % (key, name))
            return sk.call(fi_, [obj], {})

        def fresh():
            o = sk.apply(('class', ('NURBS', cname)), [], {}, None)
            for d in range(pdim):
                setp(o, 'degree' + suffix[d], degs[d])
            if pdim > 1:
                # the sizes are what set_ctrlpts / the ctrlpts setter of surfaces and volumes need beforehand
                for d in range(pdim):
                    o._a['_control_points_size'][d] = sizes[d]
            return o

        def sym(x):
            return _as_sym(x)

        def view_is(obj, what, pts_want, w_want):
            """ctrlptsw, ctrlpts and weights of obj, read through the getters, are exactly the given ones"""
            pw = getp(obj, 'ctrlptsw')
            cp = getp(obj, 'ctrlpts')
            ww = getp(obj, 'weights')
            if pdim > 1 and list(obj._a['_control_points_size']) != list(sizes):
                return '%s: the sizes of the net read %r, expected %r (the net is re-interpreted with exchanged directions)' % (what, list(obj._a['_control_points_size']), list(sizes))
            if len(pw) != total or len(cp) != total or len(ww) != total:
                return '%s: the views have %d / %d / %d entries, expected %d' % (what, len(pw), len(cp), len(ww), total)
            for i in range(total):
                w_ = sym(ww[i])
                if w_ is None or not w_.same(Sym(w_want[i])):
                    return '%s: weights[%d] reads %r, expected %r' % (what, i, ww[i], w_want[i])
                if len(cp[i]) != 3 or len(pw[i]) != 4:
                    return '%s: ctrlpts[%d] has %d coordinates, ctrlptsw[%d] has %d' % (what, i, len(cp[i]), i, len(pw[i]))
                for c in range(3):
                    a_ = sym(cp[i][c])
                    if a_ is None or not a_.same(Sym(pts_want[i][c])):
                        return '%s: ctrlpts[%d][%d] reads %r, expected %r' % (what, i, c, cp[i][c], pts_want[i][c])
                    b_ = sym(pw[i][c])
                    if b_ is None or not b_.same(Sym(pts_want[i][c] * w_want[i])):
                        return '%s: ctrlptsw[%d][%d] reads %r, expected %r' % (what, i, c, pw[i][c], pts_want[i][c] * w_want[i])
                b_ = sym(pw[i][3])
                if b_ is None or not b_.same(Sym(w_want[i])):
                    return '%s: ctrlptsw[%d][-1] reads %r, expected %r' % (what, i, pw[i][3], w_want[i])
            return None
        try:
            X = [[Poly.atom('X%d_%d' % (i, c)) for c in range(3)] for i in range(total)]
            W = [Poly.atom('W%d' % i) for i in range(total)]
            Y = [[Poly.atom('Y%d_%d' % (i, c)) for c in range(3)] for i in range(total)]
            V = [Poly.atom('V%d' % i) for i in range(total)]
            one = Poly.const(1)
            S = lambda rows: [[Sym(x) for x in r] for r in rows]
            # (a) weighted points in, the other two views out
            o = fresh()
            setp(o, 'ctrlptsw', S([[X[i][c] * W[i] for c in range(3)] + [W[i]] for i in range(total)]))
            why = view_is(o, 'after ctrlptsw = Pw', X, W)
            # (b) new points, weights kept
            if why is None:
                setp(o, 'ctrlpts', S(Y))
                why = view_is(o, 'after ctrlpts = Y on a shape with weights W', Y, W)
            # (c) new weights, points kept
            if why is None:
                setp(o, 'weights', [Sym(v) for v in V])
                why = view_is(o, 'after weights = V on a shape with points Y', Y, V)
            # (e) lists obtained from the getters, edited in place, assigned back
            if why is None:
                lst = getp(o, 'ctrlpts')
                lst[1] = [Sym('Z%d' % c) for c in range(3)]
                setp(o, 'ctrlpts', lst)
                Y2 = [list(r) for r in Y]
                Y2[1] = [Poly.atom('Z%d' % c) for c in range(3)]
                why = view_is(o, 'after editing the list returned by the ctrlpts getter in place and assigning it back', Y2, V)
            if why is None:
                lw = getp(o, 'weights')
                lw[2] = Sym('U')
                setp(o, 'weights', lw)
                V2 = list(V)
                V2[2] = Poly.atom('U')
                why = view_is(o, 'after editing the list returned by the weights getter in place and assigning it back', Y2, V2)
            # (b'), (c') the same with no read of a view in between (the cached views are empty then)
            if why is None:
                o3 = fresh()
                setp(o3, 'ctrlptsw', S([[X[i][c] * W[i] for c in range(3)] + [W[i]] for i in range(total)]))
                setp(o3, 'ctrlpts', S(Y))
                why = view_is(o3, 'after ctrlptsw = Pw, then ctrlpts = Y with no view read in between', Y, W)
            if why is None:
                o4 = fresh()
                setp(o4, 'ctrlptsw', S([[X[i][c] * W[i] for c in range(3)] + [W[i]] for i in range(total)]))
                setp(o4, 'weights', [Sym(v) for v in V])
                why = view_is(o4, 'after ctrlptsw = Pw, then weights = V with no view read in between', X, V)
            # (d) a fresh shape: unit weights
            if why is None:
                o2 = fresh()
                setp(o2, 'ctrlpts', S(Y))
                why = view_is(o2, 'after ctrlpts = Y on a fresh shape', Y, [one] * total)
        except Violation as v:
            why = '%s %s' % (v.msg, v.where())
        except Unsupported as ex:
            raise AnalysisError('%s: interpreter met an unsupported construct: %s' % (key, ex))
        ci = m.cls('NURBS', cname)
        run.ob(rule, key, why is None, 'the three views agree after every assignment, position by position' if why is None else why, 'geomdl/NURBS.py:%d in NURBS.%s' % (ci.node.lineno, cname))


# ====================================================================================== C09: conversion through the real classes
def cv4(m, run, rule='CV4.conversion-on-real-classes'):
    """CV4: convert.bspline_to_nurbs / nurbs_to_bspline interpreted on shapes built by the classes' own constructors and setters (curve,
    non-square surface, volume with three different sizes and degrees, knot vectors of order tokens, exact symbolic points, with and
    without knot vector normalisation): the result is a new shape of the other family with the degrees, sizes and knot vectors of the
    source direction by direction, the same normalisation setting, control point i = source point i (unit weights), and the source is left
    as it was; a rational shape with one non-unit weight (2, or 1/2, at the first, a middle or the last point) is returned unconverted"""
    from .skel import Sym, ModRef
    from .poly import Poly
    cases = (('Curve', (2,), (4,)), ('Surface', (2, 1), (3, 4)), ('Volume', (1, 2, 3), (2, 3, 5)))
    for fname, smod, tmod in (('bspline_to_nurbs', 'BSpline', 'NURBS'), ('nurbs_to_bspline', 'NURBS', 'BSpline')):
        fi = m.func('convert.' + fname)
        for cname, degs, sizes in cases:
            pdim = len(degs)
            total = 1
            for s_ in sizes:
                total *= s_
            suffix = [''] if pdim == 1 else ['_' + 'uvw'[d] for d in range(pdim)]
            ranks = [[0] * (p + 1) + list(range(1, n - p)) + [n - p] * (p + 1) for p, n in zip(degs, sizes)]
            from fractions import Fraction
            for norm_kv, odd, wv in ((False, None, 1), (True, None, 1), (False, total // 2, 2), (False, total - 1, 2), (False, 0, Fraction(1, 2)), (False, total // 2, Fraction(1, 2))):
                if odd is not None and smod != 'NURBS':
                    continue
                key = 'convert.%s :: %s.%s%s%s' % (fname, smod, cname, ', normalize_kv' if norm_kv else '', ', weight %d is %s' % (odd, wv) if odd is not None else '')
                ab = dict(STD_ABSTRACTED)
                ab[('knotvector', 'normalize')] = Py(lambda sk, node, kv, *a, **k: [Ord(x.rank) for x in kv], 'knotvector.normalize')
                sk = SK(m, ab)
                sk.exact = True
                sk.construct = True
                why = None

                def setp(obj, name, value):
                    fi_ = m.lookup(obj._cls, name, 'setters')
                    if fi_ is None:
                        raise AnalysisError('%s: no setter %s' % (key, name))
                    sk.call(fi_, [obj, value], {})

                def getp(obj, name):
                    fi_ = m.lookup(obj._cls, name, 'getters')
                    if fi_ is None:
                        raise AnalysisError('%s: no getter %s' % (key, name))
                    return sk.call(fi_, [obj], {})
                try:
                    src = sk.apply(('class', (smod, cname)), [], {'normalize_kv': norm_kv}, None)
                    for d in range(pdim):
                        setp(src, 'degree' + suffix[d], degs[d])
                    P = [[Poly.atom('P%d_%d' % (i, c)) for c in range(3)] for i in range(total)]
                    rows = [[Sym(x) for x in r] + ([wv if i == odd else 1] if smod == 'NURBS' else []) for i, r in enumerate(P)]
                    if smod == 'NURBS' and odd is not None:
                        rows[odd] = [Sym(P[odd][c] * wv) for c in range(3)] + [wv]
                    sk.call(m.lookup(src._cls, 'set_ctrlpts', 'methods'), [src, rows] + (list(sizes) if pdim > 1 else []), {})
                    for d in range(pdim):
                        setp(src, 'knotvector' + suffix[d], [Ord(r) for r in ranks[d]])
                    before = (list(src._a['_degree']), list(src._a['_control_points_size']), [[k.rank for k in kv] for kv in src._a['_knot_vector']],
                              [list(r) for r in src._a['_control_points']])
                    out = sk.call(fi, [src], {})
                    after = (list(src._a['_degree']), list(src._a['_control_points_size']), [[getattr(k, 'rank', None) for k in kv] for kv in src._a['_knot_vector']],
                             [list(r) for r in src._a['_control_points']])
                    if before[:3] != after[:3] or len(before[3]) != len(after[3]) or any(x is not y for r1, r2 in zip(before[3], after[3]) for x, y in zip(r1, r2)):
                        why = 'the source shape is modified by the conversion'
                    elif odd is not None:
                        if out is not src:
                            why = 'a rational shape whose weight %d is %s (all others 1) is converted: its weights are dropped' % (odd, wv)
                    elif not isinstance(out, Bag) or out is src or out._cls != (tmod, cname):
                        why = 'the result is not a new %s.%s' % (tmod, cname)
                    else:
                        b = out._a
                        if list(b.get('_degree', [])) != list(degs):
                            why = 'the degrees of the result are %s, the source has %s' % (list(b.get('_degree', [])), list(degs))
                        elif list(b.get('_control_points_size', [])) != list(sizes):
                            why = 'the sizes of the result are %s, the source has %s' % (list(b.get('_control_points_size', [])), list(sizes))
                        elif [[getattr(k, 'rank', None) for k in kv] for kv in b.get('_knot_vector', [])] != ranks:
                            why = 'the knot vectors of the result are not those of the source, direction by direction'
                        elif b.get('_kv_normalize') is not norm_kv:
                            why = 'the result is built with normalize_kv=%r, the source with %r: its knot vectors are (not) re-normalised and it no longer evaluates at the parameters of the source' % (b.get('_kv_normalize'), norm_kv)
                        else:
                            cp = getp(out, 'ctrlpts')
                            if not isinstance(cp, (list, tuple)) or len(cp) != total:
                                why = 'the result has %r control points, the source %d' % (len(cp) if isinstance(cp, (list, tuple)) else cp, total)
                            for i in range(total):
                                if why:
                                    break
                                if len(cp[i]) != 3:
                                    why = 'control point %d of the result has %d coordinates' % (i, len(cp[i]))
                                for c in range(3):
                                    if why:
                                        break
                                    s = _as_sym(cp[i][c])
                                    if s is None or not s.same(Sym(P[i][c])):
                                        why = 'control point %d coordinate %d of the result is %r, the source has %r' % (i, c, cp[i][c], P[i][c])
                            if why is None and tmod == 'NURBS':
                                ww = getp(out, 'weights')
                                for i in range(total):
                                    s = _as_sym(ww[i]) if isinstance(ww, (list, tuple)) and len(ww) > i else None
                                    if s is None or not s.same(Sym(Poly.const(1))):
                                        why = 'weight %d of the converted shape is %r, expected 1' % (i, ww[i] if isinstance(ww, (list, tuple)) and len(ww) > i else ww)
                                        break
                except Violation as v:
                    why = '%s %s' % (v.msg, v.where())
                except Unsupported as ex:
                    raise AnalysisError('%s: interpreter met an unsupported construct: %s' % (key, ex))
                run.ob(rule, key, why is None, ('returned unconverted' if odd is not None else 'a new %s.%s with the definition of the source, direction by direction' % (tmod, cname)) if why is None else why,
                       'geomdl/convert.py:%d in %s' % (fi.node.lineno, fi.key))


# ====================================================================================== C11: least-squares approximation as a linear map of the data
def ap3(m, run, rule='AP3.least-squares-fit-is-the-normal-equations-solution'):
    """AP3: fitting.approximate_curve / approximate_surface interpreted with exact arithmetic on symbolic data points (atoms Q), the parameter
    and knot vector constructions replaced by recorders and helpers.basis_function_one by a table of generic rational stand-in values
    N(direction, function, parameter) (two different tables); transposition, product, LU factorisation and the substitutions are the real
    linalg code.  The control points of the result, which are linear forms in the atoms Q, are compared exactly with the solution defined
    by Eqs. 9.63 - 9.67: first / last control point = first / last data point, interior ones solve (N^T N) P = R with R_j = sum_k N_j(u_k)
    (Q_k - N_0(u_k) Q_0 - N_n(u_k) Q_m); for a surface that curve fit applied along u to every data column and then along v to every row
    of the intermediate net (the two passes commute), stored at v + size_v * u.  Degree, knot vector, parameter and sizes of each
    direction must reach the helpers and the result together, and the centripetal option must reach the parametrisation.  The identity is exact in the data points and for the two stand-in tables -
    a polynomial identity test in the basis values, not a symbolic proof in them"""
    from fractions import Fraction as F
    from .skel import Sym
    from .poly import Poly
    dim = 2

    def L(*lab):
        return Tok('DEF', dep=frozenset([lab]))

    def plab(tok):
        return sorted(tok.dep)[0] if isinstance(tok, Tok) and tok.kind == 'DEF' and len(tok.dep) == 1 else None

    def table(g):
        def N(d, j, k):
            x = (1103515245 * (97 * d + 31 * j + 7 * k + 1009 * g + 12345) + 12345) % 2147483648
            return F(1 + x % 89, 97 + (x // 89) % 13)
        return N

    def solve(M, rhs):
        """Gaussian elimination over Fractions; rhs rows are lists of Poly"""
        n = len(M)
        A = [list(r) for r in M]
        B = [list(r) for r in rhs]
        for c in range(n):
            piv = next(r for r in range(c, n) if A[r][c] != 0)
            A[c], A[piv] = A[piv], A[c]
            B[c], B[piv] = B[piv], B[c]
            for r in range(c + 1, n):
                f = A[r][c] / A[c][c]
                A[r] = [a - f * b for a, b in zip(A[r], A[c])]
                B[r] = [a - b * f for a, b in zip(B[r], B[c])]
        X = [None] * n
        for r in range(n - 1, -1, -1):
            acc = list(B[r])
            for c in range(r + 1, n):
                acc = [a - x * A[r][c] for a, x in zip(acc, X[c])]
            X[r] = [a * (1 / A[r][r]) for a in acc]
        return X

    def fit(N, d, D, c):
        """the least-squares curve fit of Eqs. 9.63 - 9.67 in direction d: D data (rows of Poly), c control points"""
        s = len(D)
        Mx = [[sum(N(d, j, k) * N(d, l, k) for k in range(1, s - 1)) for l in range(1, c - 1)] for j in range(1, c - 1)]
        R = []
        for j in range(1, c - 1):
            row = [Poly() for _ in range(dim)]
            for k in range(1, s - 1):
                for x in range(dim):
                    row[x] = row[x] + (D[k][x] - D[0][x] * N(d, 0, k) - D[s - 1][x] * N(d, c - 1, k)) * N(d, j, k)
            R.append(row)
        return [list(D[0])] + (solve(Mx, R) if c > 2 else []) + [list(D[s - 1])]

    def as_poly(v):
        s = _as_sym(v)
        if s is None or s.q is not None:
            return None
        return s.p

    def compare(got, want, what):
        if not isinstance(got, list) or len(got) != len(want):
            return 'the result has %r control points, expected %d' % (len(got) if isinstance(got, list) else got, len(want))
        for i, (g_, w_) in enumerate(zip(got, want)):
            if not isinstance(g_, (list, tuple)) or len(g_) != dim:
                return 'control point %s has %r coordinates' % (what(i), len(g_) if isinstance(g_, (list, tuple)) else g_)
            for x in range(dim):
                p_ = as_poly(g_[x])
                if p_ is None or p_ != w_[x]:
                    return 'control point %s, coordinate %d is %s; the least-squares solution is %r' % (what(i), x, repr(g_[x])[:160], w_[x])
        return None
    bad_c, bad_s, ncase_c, ncase_s = [], [], 0, 0
    for g in (0, 1):
        N = table(g)
        # ---------------------------------------------------------------- curve
        fc = m.func('fitting.approximate_curve')
        for s_, c_, p_, cent in ((6, 4, 2, False), (5, 3, 1, True), (7, 5, 3, False), (6, 4, 2, True)):
            ncase_c += 1
            Q = [[Poly.atom('Q%d_%d' % (k, x)) for x in range(dim)] for k in range(s_)]
            P = [[Sym(a) for a in r] for r in Q]
            uk = [L('u', k) for k in range(s_)]
            kvs, shapes = {}, []

            def cpc(sk, node, points, *a, _cent=cent, **k):
                if points is not P:
                    raise Violation('AP3', 'compute_params_curve is not given the data points', node)
                got_c = a[0] if a else k.get('centripetal', False)
                if bool(got_c) is not _cent:
                    raise Violation('AP3', 'compute_params_curve is called with centripetal=%r although the fit was asked with centripetal=%r: the fit is not the least-squares solution at the requested parameters' % (got_c, _cent), node)
                return uk

            def ckv2(sk, node, degree, nd, nc, params, _uk=uk):
                kv = [L('kv', len(kvs), i) for i in range(nc + degree + 1)]
                kvs[id(kv)] = (degree, nd, nc, 'u' if params is _uk else '?')
                shapes.append(kv)
                return kv

            def bf1(sk, node, degree, kv, j, u, _p=p_, _s=s_, _c=c_):
                if kvs.get(id(kv)) != (_p, _s, _c, 'u') or degree != _p:
                    raise Violation('AP3', 'basis_function_one is called with degree %r and a knot vector built from %r; the curve has degree %d, %d data points, %d control points' % (degree, kvs.get(id(kv)), _p, _s, _c), node)
                lab = plab(u)
                if lab is None or lab[0] != 'u' or not isinstance(j, int) or not 0 <= j < _c:
                    raise Violation('AP3', 'basis_function_one is asked for function %r at %r' % (j, u), node)
                return N(0, j, lab[1])
            ab = dict(STD_ABSTRACTED)
            ab[('fitting', 'compute_params_curve')] = Py(cpc, 'compute_params_curve')
            ab[('fitting', 'compute_knot_vector2')] = Py(ckv2, 'compute_knot_vector2')
            ab[('helpers', 'basis_function_one')] = Py(bf1, 'basis_function_one')
            made = []
            ab[('class', ('BSpline', 'Curve'))] = lambda sk, node, *a, **k: rec_shape(('BSpline', 'Curve'), made, {}, dict(k), 'constructed')
            sk = SK(m, ab)
            sk.exact = True
            why = None
            try:
                out = sk.call(fc, [P, p_], {'ctrlpts_size': c_, 'centripetal': cent} if cent else {'ctrlpts_size': c_})
                if not isinstance(out, Bag):
                    why = 'does not return a curve'
                else:
                    a_ = out._a
                    why = compare(a_.get('ctrlpts'), fit(N, 0, Q, c_), lambda i: str(i))
                    if why is None and (a_.get('degree') != p_ or kvs.get(id(a_.get('knotvector'))) != (p_, s_, c_, 'u')):
                        why = 'the result gets degree %r and a knot vector built from %r' % (a_.get('degree'), kvs.get(id(a_.get('knotvector'))))
            except Violation as v:
                why = '%s %s' % (v.msg, v.where())
            except Unsupported as ex:
                raise AnalysisError('%s: interpreter met an unsupported construct: %s' % (fc.key, ex))
            if why:
                bad_c.append(('%d data points, %d control points, degree %d%s, table %d' % (s_, c_, p_, ', centripetal' if cent else '', g), why))
        # ---------------------------------------------------------------- surface
        fs = m.func('fitting.approximate_surface')
        for (su, sv), (cu, cv), (pu, pv), cent in (((5, 4), (4, 3), (2, 1), False), ((4, 6), (3, 4), (1, 2), True)):
            ncase_s += 1
            Q = [[[Poly.atom('Q%d_%d_%d' % (i, j, x)) for x in range(dim)] for j in range(sv)] for i in range(su)]
            P = [[Sym(a) for a in Q[i // sv][i % sv]] for i in range(su * sv)]
            uk, vl = [L('u', k) for k in range(su)], [L('v', k) for k in range(sv)]
            kvs, made = {}, []

            def cps(sk, node, points, a, b, *r, _cent=cent, **k):
                if points is not P or (a, b) != (su, sv):
                    raise Violation('AP3', 'compute_params_surface is called with sizes (%r, %r); the data grid is %d x %d' % (a, b, su, sv), node)
                got_c = r[0] if r else k.get('centripetal', False)
                if bool(got_c) is not _cent:
                    raise Violation('AP3', 'compute_params_surface is called with centripetal=%r although the fit was asked with centripetal=%r' % (got_c, _cent), node)
                return uk, vl

            def ckv2(sk, node, degree, nd, nc, params, _uk=uk, _vl=vl):
                kv = [L('kv', len(kvs), i) for i in range(nc + degree + 1)]
                kvs[id(kv)] = (degree, nd, nc, 'u' if params is _uk else ('v' if params is _vl else '?'))
                made.append(kv)
                return kv
            want_kv = {'u': (pu, su, cu, 'u'), 'v': (pv, sv, cv, 'v')}

            def bf1(sk, node, degree, kv, j, u):
                lab = plab(u)
                if lab is None or lab[0] not in ('u', 'v'):
                    raise Violation('AP3', 'basis_function_one is asked for a value at %r' % (u,), node)
                d = lab[0]
                if kvs.get(id(kv)) != want_kv[d] or degree != want_kv[d][0]:
                    raise Violation('AP3', 'basis_function_one at a %s parameter is called with degree %r and a knot vector built from %r; the %s direction has (degree, data points, control points) = %r'
                                    % (d, degree, kvs.get(id(kv)), d, want_kv[d][:3]), node)
                if not isinstance(j, int) or not 0 <= j < want_kv[d][2]:
                    raise Violation('AP3', 'basis_function_one is asked for function %r of the %s direction' % (j, d), node)
                return N(0 if d == 'u' else 1, j, lab[1])
            ab = dict(STD_ABSTRACTED)
            ab[('fitting', 'compute_params_surface')] = Py(cps, 'compute_params_surface')
            ab[('fitting', 'compute_knot_vector2')] = Py(ckv2, 'compute_knot_vector2')
            ab[('helpers', 'basis_function_one')] = Py(bf1, 'basis_function_one')
            shapes = []
            ab[('class', ('BSpline', 'Surface'))] = lambda sk, node, *a, **k: rec_shape(('BSpline', 'Surface'), shapes, {}, dict(k), 'constructed')
            sk = SK(m, ab)
            sk.exact = True
            why = None
            try:
                out = sk.call(fs, [P, su, sv, pu, pv], dict({'ctrlpts_size_u': cu, 'ctrlpts_size_v': cv}, **({'centripetal': True} if cent else {})))
                if not isinstance(out, Bag):
                    why = 'does not return a surface'
                else:
                    a_ = out._a
                    T = [fit(N, 0, [Q[i][j] for i in range(su)], cu) for j in range(sv)]            # T[j][i']: column j fitted along u
                    Fin = [fit(N, 1, [T[j][i] for j in range(sv)], cv) for i in range(cu)]          # Fin[i'][j']
                    want = [Fin[i][j] for i in range(cu) for j in range(cv)]
                    why = compare(a_.get('ctrlpts'), want, lambda k: '(u %d, v %d) at position %d' % (k // cv, k % cv, k))
                    if why is None and (a_.get('degree_u'), a_.get('degree_v'), a_.get('ctrlpts_size_u'), a_.get('ctrlpts_size_v')) != (pu, pv, cu, cv):
                        why = 'the result gets degrees / sizes (%r, %r) / (%r, %r), expected (%d, %d) / (%d, %d)' % (a_.get('degree_u'), a_.get('degree_v'), a_.get('ctrlpts_size_u'), a_.get('ctrlpts_size_v'), pu, pv, cu, cv)
                    elif why is None and (kvs.get(id(a_.get('knotvector_u'))) != want_kv['u'] or kvs.get(id(a_.get('knotvector_v'))) != want_kv['v']):
                        why = 'the knot vectors of the result are built from %r / %r' % (kvs.get(id(a_.get('knotvector_u'))), kvs.get(id(a_.get('knotvector_v'))))
            except Violation as v:
                why = '%s %s' % (v.msg, v.where())
            except Unsupported as ex:
                raise AnalysisError('%s: interpreter met an unsupported construct: %s' % (fs.key, ex))
            if why:
                bad_s.append(('%d x %d data points, %d x %d control points, degrees (%d, %d)%s, table %d' % (su, sv, cu, cv, pu, pv, ', centripetal' if cent else '', g), why))
    for fi_, bad, n_ in ((m.func('fitting.approximate_curve'), bad_c, ncase_c), (m.func('fitting.approximate_surface'), bad_s, ncase_s)):
        run.ob(rule, '%s :: %d cases' % (fi_.key, n_), not bad, 'the control points are the solution of Eqs. 9.63 - 9.67, exactly in the data points' if not bad else
               '%s: %s   [%d of %d cases]' % (bad[0][0], bad[0][1], len(bad), n_), 'geomdl/fitting.py:%d in %s' % (fi_.node.lineno, fi_.key))


# ====================================================================================== C09 / C12: every cache key exists on a new object and on a deep copy
def ck3(m, run, classes, keys_of, rule='CK3.cache-keys-exist-on-new-objects-and-copies'):
    """CK3: every class is constructed by interpreting its own __init__ chain and then deep-copied by interpreting its own __deepcopy__
    (memo contract modelled): the cache dictionary of the new object and of the copy holds every key some method of the class reads
    (`keys_of(cls)`: enumerated from the source), each with an empty value, and the two dictionaries are different objects"""
    for cls in classes:
        keys = sorted(keys_of(cls))
        if not keys:
            continue
        key = '%s.%s :: keys %s' % (cls[0], cls[1], ', '.join(keys))
        sk = SK(m, dict(STD_ABSTRACTED))
        sk.construct = True
        sk.follow_deepcopy = True
        why = None
        try:
            obj = sk.apply(('class', cls), [2, 3] if cls[0] == 'CPGen' else [], {}, None)      # a grid generator needs its extents
            c0 = obj._a.get('_cache')
            if not isinstance(c0, dict):
                why = 'a new object has no cache dictionary'
            else:
                miss = [k for k in keys if k not in c0]
                full = [k for k in keys if k in c0 and c0[k]]
                twice = [(k1, k2) for i_, k1 in enumerate(keys) for k2 in keys[i_ + 1:] if k1 in c0 and k2 in c0 and isinstance(c0[k1], (list, dict)) and c0[k1] is c0[k2]]
                if miss:
                    why = 'a new object has no cache entry %r: the first read raises KeyError' % miss[0]
                elif full:
                    why = 'cache entry %r of a new object is not empty' % full[0]
                elif twice:
                    why = 'the cache entries %r and %r of a new object are one and the same list: what is cached under one name shows up under the other' % twice[0]
            if why is None and m.lookup(cls, '__deepcopy__', 'methods') is not None:
                from .skel import BUILTINS
                cp = BUILTINS['deepcopy'].f(sk, None, obj)
                c1 = cp._a.get('_cache') if isinstance(cp, Bag) else None
                if not isinstance(cp, Bag) or cp is obj:
                    why = 'the deep copy is not a new object'
                elif not isinstance(c1, dict):
                    why = 'the deep copy has no cache dictionary'
                elif c1 is c0:
                    why = 'the deep copy shares the cache dictionary of its source'
                else:
                    miss = [k for k in keys if k not in c1]
                    full = [k for k in keys if k in c1 and c1[k]]
                    twice = [(k1, k2) for i_, k1 in enumerate(keys) for k2 in keys[i_ + 1:] if k1 in c1 and k2 in c1 and isinstance(c1[k1], (list, dict)) and c1[k1] is c1[k2]]
                    # a copy starts with empty caches also when the caches of its source are filled: whoever edits the copy next (a transform
                    # without inplace edits the elements of a copied container) would otherwise be answered from the source's cached data
                    if not twice and not miss and not full:
                        for k_ in keys:
                            c0[k_] = [[Tok('DEF', dep=frozenset([('cached', k_, c_)])) for c_ in range(3)]]        # (a cached list of one point)
                        cp2 = BUILTINS['deepcopy'].f(sk, None, obj)
                        c2 = cp2._a.get('_cache') if isinstance(cp2, Bag) else None
                        carried = [k_ for k_ in keys if isinstance(c2, dict) and c2.get(k_)]
                        if carried:
                            why = 'the deep copy of an object whose cache entry %r is filled starts with that entry filled too: the copy answers from data computed for its source' % carried[0]
                    if why:
                        pass
                    elif twice:
                        why = 'the cache entries %r and %r of a deep copy are one and the same list' % twice[0]
                    elif miss:
                        why = 'the deep copy has no cache entry %r (its cache is a fresh dictionary that nobody fills with the keys): reading it on a copy raises KeyError' % miss[0]
                    elif full:
                        why = 'cache entry %r of a deep copy of a new object is not empty' % full[0]
            # a class that customises pickling (what multiprocessing does to every element handed to a worker and back): the object that
            # comes back - state = __getstate__() (or the instance dictionary), a new instance without __init__, __setstate__(state) (or an
            # update of its dictionary) - has the keys too
            gs_, ss_ = m.lookup(cls, '__getstate__', 'methods'), m.lookup(cls, '__setstate__', 'methods')
            if why is None and (gs_ is not None or ss_ is not None) and m.lookup(cls, '__reduce__', 'methods') is None and m.lookup(cls, '__reduce_ex__', 'methods') is None:
                from .skel import BUILTINS as _B
                state = sk.call(gs_, [obj], {}) if gs_ is not None else dict(obj._a)
                state = _B['deepcopy'].f(sk, None, state) if isinstance(state, dict) else state        # (serialised and rebuilt)
                back = Bag(cls)
                if ss_ is not None:
                    sk.call(ss_, [back, state], {})
                elif isinstance(state, dict):
                    back._a.update(state)
                cb = back._a.get('_cache')
                missb = [k for k in keys if not isinstance(cb, dict) or k not in cb]
                if missb:
                    why = ('after a pickle round trip through the class\'s own __getstate__ / __setstate__ (what a worker pool does to the elements it is handed) the object has no '
                           'cache entry %r: the first read raises KeyError - with one process the same call works' % missb[0])
        except Violation as v:
            why = '%s %s' % (v.msg, v.where())
        except Unsupported as ex:
            raise AnalysisError('%s: interpreter met an unsupported construct: %s' % (key, ex))
        ci = m.classes[cls]
        run.ob(rule, key, why is None, 'present and empty on a new object and on its deep copy' if why is None else why, 'geomdl/%s.py:%d in %s.%s' % (cls[0], ci.node.lineno, cls[0], cls[1]))



# ====================================================================================== C10: translation and scaling through the real classes
def tr4(m, run, rule='TR4.transform-on-real-classes'):
    """TR4: operations.translate / operations.scale interpreted (in place and on a copy) on a real multi.CurveContainer holding a B-spline and
    a rational curve, all built by the classes' own constructors and setters with symbolic coordinates and weights: afterwards the ctrlpts
    getter of every element gives p_c + vec_c (p_c * multiplier), the weights getter the weights it had, and the homogeneous points are
    (new point * weight, weight); with inplace=False the input keeps its points and the result is another object"""
    from .skel import Sym
    from .poly import Poly
    npts, deg = 3, 2
    for name, mk_arg, want, doc in (('translate', lambda: [Sym('v%d' % c) for c in range(3)], lambda p, c: p + Poly.atom('v%d' % c), 'p[c] + vec[c]'),
                                    ('scale', lambda: Sym('s'), lambda p, c: p * Poly.atom('s'), 'p[c] * multiplier')):
        fi = m.func('operations.' + name)
        for inplace in (True, False):
            key = 'operations.%s :: real container of a B-spline and a rational curve, inplace=%s' % (name, inplace)
            ab = dict(STD_ABSTRACTED)
            ab[('knotvector', 'normalize')] = Py(lambda sk, node, kv, *a, **k: [Ord(x.rank) for x in kv], 'knotvector.normalize')
            sk = SK(m, ab)
            sk.exact = True
            sk.construct = True
            sk.follow_deepcopy = True
            why = None

            def setp(obj, nm, value):
                sk.call(m.lookup(obj._cls, nm, 'setters'), [obj, value], {})

            def getp(obj, nm):
                return sk.call(m.lookup(obj._cls, nm, 'getters'), [obj], {})
            try:
                elems, P, W = [], [], []
                for e, mod in enumerate(('BSpline', 'NURBS')):
                    o_ = sk.apply(('class', (mod, 'Curve')), [], {}, None)
                    setp(o_, 'degree', deg)
                    p_ = [[Poly.atom('p%d_%d_%d' % (e, k, c)) for c in range(3)] for k in range(npts)]
                    w_ = [Poly.atom('w%d' % k) for k in range(npts)] if mod == 'NURBS' else None
                    rows = [[Sym(x) for x in r] for r in p_] if w_ is None else [[Sym(x * w_[k]) for x in r] + [Sym(w_[k])] for k, r in enumerate(p_)]
                    sk.call(m.lookup(o_._cls, 'set_ctrlpts', 'methods'), [o_, rows], {})
                    setp(o_, 'knotvector', [Ord(r) for r in (0, 0, 0, 1, 1, 1)])
                    elems.append(o_)
                    P.append(p_)
                    W.append(w_)
                cont = sk.apply(('class', ('multi', 'CurveContainer')), list(elems), {}, None)
                out = sk.call(fi, [cont, mk_arg()], {'inplace': inplace})
                if inplace:
                    res = elems
                    if out is not cont:
                        why = 'inplace=True does not return the container passed in'
                else:
                    if out is cont or not isinstance(out, Bag):
                        why = 'inplace=False returns the input itself'
                    else:
                        res = list(out._a.get('_elements', []))
                        if len(res) != 2 or any(r is e_ for r in res for e_ in elems):
                            why = 'inplace=False returns a container that shares its elements with the input'

                def views(o_, p_, w_, what):
                    cp = getp(o_, 'ctrlpts')
                    if not isinstance(cp, (list, tuple)) or len(cp) != npts:
                        return '%s: %r control points' % (what, len(cp) if isinstance(cp, (list, tuple)) else cp)
                    ww = getp(o_, 'weights') if w_ is not None else None
                    pw = getp(o_, 'ctrlptsw') if w_ is not None else None
                    for k in range(npts):
                        if len(cp[k]) != 3:
                            return '%s: point %d has %d coordinates' % (what, k, len(cp[k]))
                        for c in range(3):
                            s_ = _as_sym(cp[k][c])
                            if s_ is None or not s_.same(Sym(p_[k][c])):
                                return '%s: coordinate %d of point %d is %r, expected %r' % (what, c, k, cp[k][c], p_[k][c])
                            if w_ is not None:
                                h_ = _as_sym(pw[k][c])
                                if h_ is None or not h_.same(Sym(p_[k][c] * w_[k])):
                                    return '%s: homogeneous coordinate %d of point %d is %r, expected %r' % (what, c, k, pw[k][c], p_[k][c] * w_[k])
                        if w_ is not None:
                            s_ = _as_sym(ww[k])
                            if s_ is None or not s_.same(Sym(w_[k])):
                                return '%s: weight %d is %r, expected %r (a rigid or uniform transformation leaves the weights alone)' % (what, k, ww[k], w_[k])
                    return None
                for e in range(2):
                    if why:
                        break
                    moved = [[want(P[e][k][c], c) for c in range(3)] for k in range(npts)]
                    why = views(res[e], moved, W[e], 'element %d (%s) of the result' % (e, ('B-spline', 'rational')[e]))
                    if why is None and not inplace:
                        why = views(elems[e], P[e], W[e], 'element %d of the input after inplace=False' % e)
            except Violation as v:
                why = '%s %s' % (v.msg, v.where())
            except Unsupported as ex:
                raise AnalysisError('%s: interpreter met an unsupported construct: %s' % (key, ex))
            run.ob(rule, key, why is None, 'every coordinate becomes %s, weights kept%s' % (doc, '' if inplace else ', input untouched') if why is None else why,
                   'geomdl/operations.py:%d in %s' % (fi.node.lineno, fi.key))


# ====================================================================================== C13: construction of surfaces / volumes from sections, on real classes
def cs2(m, run, rule='CS2.construction-from-sections-on-real-classes'):
    """CS2: construct.construct_surface / construct_volume interpreted on sections (B-spline and rational) built by the classes' own
    constructors and setters with exact symbolic points and weights, the result built by the real classes too: for every stacking
    direction the result has, direction by direction, the degree / knot vector / size of the sections or of the keyword arguments, and
    its control point at (u, v[, w]) - read through the getters, position v + size_v * u [+ size_u * size_v * w] - is the section point
    the stacking prescribes, with the weight of that very point"""
    from .skel import Sym
    from .poly import Poly

    def mk(sk, mod, cname, degs, sizes, lab):
        pdim = len(degs)
        total = 1
        for s_ in sizes:
            total *= s_
        sfx = [''] if pdim == 1 else ['_' + 'uvw'[d] for d in range(pdim)]
        o_ = sk.apply(('class', (mod, cname)), [], {}, None)
        for d in range(pdim):
            sk.call(m.lookup(o_._cls, 'degree' + sfx[d], 'setters'), [o_, degs[d]], {})
        P = [[Poly.atom('%s_%d_%d' % (lab, i, c)) for c in range(3)] for i in range(total)]
        W = [Poly.atom('%sw_%d' % (lab, i)) for i in range(total)] if mod == 'NURBS' else None
        rows = [[Sym(x) for x in r] for r in P] if W is None else [[Sym(x * W[i]) for x in r] + [Sym(W[i])] for i, r in enumerate(P)]
        sk.call(m.lookup(o_._cls, 'set_ctrlpts', 'methods'), [o_, rows] + (list(sizes) if pdim > 1 else []), {})
        ranks = [[0] * (p + 1) + list(range(1, n - p)) + [n - p] * (p + 1) for p, n in zip(degs, sizes)]
        for d in range(pdim):
            sk.call(m.lookup(o_._cls, 'knotvector' + sfx[d], 'setters'), [o_, [Ord(10 * (d + 1) + r) for r in ranks[d]]], {})
        return o_, P, W, [[10 * (d + 1) + r for r in ranks[d]] for d in range(pdim)]

    def getp(sk, obj, nm):
        g = m.lookup(obj._cls, nm, 'getters')
        if g is None:
            raise Violation('CS2', 'the result has no property %s' % nm, None)
        return sk.call(g, [obj], {})
    jobs = []
    # (function, section class, section degrees, section sizes, number of sections, directions)
    jobs.append(('construct_surface', 'Curve', (2,), (4,), 3, ('u', 'v')))
    jobs.append(('construct_volume', 'Surface', (2, 1), (3, 4), 2, ('u', 'v', 'w')))
    for fname, cname, sdegs, ssizes, nsec, dirs in jobs:
        fi = m.func('construct.' + fname)
        for direction in dirs:
            for mod in ('BSpline', 'NURBS'):
                key = 'construct.%s :: %d %s sections stacked along %s' % (fname, nsec, 'rational' if mod == 'NURBS' else 'B-spline', direction)
                ab = dict(STD_ABSTRACTED)
                ab[('knotvector', 'normalize')] = Py(lambda sk, node, kv, *a, **k: [Ord(x.rank) for x in kv], 'knotvector.normalize')
                sk = SK(m, ab)
                sk.exact = True
                sk.construct = True
                why = None
                try:
                    secs = [mk(sk, mod, cname, sdegs, ssizes, 's%d' % j) for j in range(nsec)]
                    odeg = 1
                    okv = [90] * (odeg + 1) + list(range(91, 91 + nsec - odeg - 1)) + [99] * (odeg + 1)
                    out = sk.call(fi, [direction] + [s_[0] for s_ in secs], {'degree': odeg, 'knotvector': [Ord(r) for r in okv]})
                    d_ = 'uvw'.index(direction)
                    # result directions: the stacking direction receives the keyword data, the others the section's directions in order
                    rdeg = list(sdegs)
                    rdeg.insert(d_, odeg)
                    rsz = list(ssizes)
                    rsz.insert(d_, nsec)
                    rkv = [list(x) for x in secs[0][3]]
                    rkv.insert(d_, okv)
                    if not isinstance(out, Bag) or not isinstance(out._cls, tuple) or out._cls[0] != mod:
                        why = 'the result is not a %s shape' % mod
                    else:
                        a_ = out._a
                        if list(a_.get('_degree', [])) != rdeg:
                            why = 'the degrees of the result are %s, expected %s' % (list(a_.get('_degree', [])), rdeg)
                        elif list(a_.get('_control_points_size', [])) != rsz:
                            why = 'the sizes of the result are %s, expected %s' % (list(a_.get('_control_points_size', [])), rsz)
                        elif [[getattr(k, 'rank', None) for k in kv] for kv in a_.get('_knot_vector', [])] != rkv:
                            why = 'the knot vectors of the result are not (sections / keyword) in the directions %s' % rdeg
                        else:
                            cp = getp(sk, out, 'ctrlpts')
                            ww = getp(sk, out, 'weights') if mod == 'NURBS' else None
                            total = 1
                            for s_ in rsz:
                                total *= s_
                            if not isinstance(cp, (list, tuple)) or len(cp) != total:
                                why = 'the result has %r control points, expected %d' % (len(cp) if isinstance(cp, (list, tuple)) else cp, total)
                            import itertools
                            for idx in itertools.product(*[range(s_) for s_ in rsz]):
                                if why:
                                    break
                                flat = idx[1] + rsz[1] * idx[0] + (rsz[0] * rsz[1] * idx[2] if len(rsz) == 3 else 0)
                                j = idx[d_]
                                rest = [x for k_, x in enumerate(idx) if k_ != d_]
                                sflat = rest[0] if len(rest) == 1 else rest[1] + ssizes[1] * rest[0]
                                _, P, W, _ = secs[j]
                                for c in range(3):
                                    s_ = _as_sym(cp[flat][c]) if len(cp[flat]) > c else None
                                    if s_ is None or not s_.same(Sym(P[sflat][c])):
                                        why = 'control point %s of the result (position %d) has %r in coordinate %d; it is point %s of section %d, %r' % (
                                            idx, flat, cp[flat][c] if len(cp[flat]) > c else None, c, tuple(rest), j, P[sflat][c])
                                        break
                                if why is None and W is not None:
                                    s_ = _as_sym(ww[flat]) if isinstance(ww, (list, tuple)) and len(ww) > flat else None
                                    if s_ is None or not s_.same(Sym(W[sflat])):
                                        why = 'the weight of control point %s of the result is %r; the point is point %s of section %d whose weight is %r' % (
                                            idx, ww[flat] if isinstance(ww, (list, tuple)) and len(ww) > flat else ww, tuple(rest), j, W[sflat])
                except Violation as v:
                    why = '%s %s' % (v.msg, v.where())
                except Unsupported as ex:
                    raise AnalysisError('%s: interpreter met an unsupported construct: %s' % (key, ex))
                run.ob(rule, key, why is None, 'degrees, knots, sizes per direction; every control point and weight is the section point the stacking prescribes' if why is None else why,
                       'geomdl/construct.py:%d in %s' % (fi.node.lineno, fi.key))


# ====================================================================================== C14: smesh / vmesh text round trip on real classes
def sm2(m, run, rule='SM2.mesh-file-round-trip-on-real-classes'):
    """SM2: exchange.export_smesh / export_vmesh interpreted in text mode on a rational surface (non-square, different degrees) and volume
    (three different sizes) built by the classes' own constructors and setters - homogeneous control points exact symbolic, knots order
    tokens; an abstract number prints as a label that reads back as the same number - with the file written kept in memory;
    the text has the documented records (dimension; degrees; sizes; one knot vector per line; one record (x, y, z, w) = (Pw / w, w) per
    control point with u varying first, then v, then w; a closing 1), and _exchange.import_surf_mesh / import_vol_mesh interpreted on it give back the shape: the imported shape has the degrees, sizes, knot
    vectors and homogeneous control points (exact, position by position) of the exported one.  The same for a B-spline source (unit
    weights) and for a container of two shapes (one numbered file each, each file holding its own shape only)"""
    from .skel import Sym
    from .poly import Poly
    for tag, cname, degs, sizes, exp, imp in (('smesh', 'Surface', (2, 1), (3, 4), 'exchange.export_smesh', '_exchange.import_surf_mesh'),
                                              ('vmesh', 'Volume', (1, 2, 1), (2, 4, 3), 'exchange.export_vmesh', '_exchange.import_vol_mesh')):
        pdim = len(degs)
        total = 1
        for s_ in sizes:
            total *= s_
        for mod, multi in (('NURBS', False), ('BSpline', False), ('NURBS', True)):
            key = '%s -> %s :: %s%s.%s' % (exp, imp, 'a container of two ' if multi else '', mod, cname)
            files = {}
            ab = dict(STD_ABSTRACTED)
            ab[('knotvector', 'normalize')] = Py(lambda sk, node, kv, *a, **k: [Ord(x.rank) for x in kv], 'knotvector.normalize')
            ab[('_exchange', 'write_file')] = Py(lambda sk, node, name, content, **k: files.__setitem__(name, content) or True, 'write_file')
            ab[('_exchange', 'read_file')] = Py(lambda sk, node, name, **k: files[name], 'read_file')
            sk = SK(m, ab)
            sk.exact = True
            sk.text = True
            sk.construct = True
            why = None
            def file_format(sk, text, Pw):
                """the documented layout: dimension / degrees / sizes / one knot vector per line / one (x, y, z, w) record per control
                point, u varying first, then v (then w) / a closing 1"""
                from .skel import _float
                lines = [ln.split() for ln in text.split('\n')]
                if len(lines) < 3 + pdim + total + 1:
                    return 'the file has %d lines; dimension, degrees, sizes, %d knot vectors, %d points and the closing flag are %d' % (len(lines), pdim, total, 3 + pdim + total + 1)
                if lines[0] != ['3']:
                    return 'record 0 is %r, the format has the dimension (3) there' % ' '.join(lines[0])
                if lines[1] != [str(p_) for p_ in degs]:
                    return 'record 1 is %r, the format has the degrees %s there' % (' '.join(lines[1]), ' '.join(str(p_) for p_ in degs))
                if lines[2] != [str(n_) for n_ in sizes]:
                    return 'record 2 is %r, the format has the sizes %s there' % (' '.join(lines[2]), ' '.join(str(n_) for n_ in sizes))
                for d in range(pdim):
                    got = [getattr(_float(sk, None, t_), 'rank', None) for t_ in lines[3 + d]]
                    if got != [10 * d + r for r in ranks[d]]:
                        return 'record %d does not hold the knot vector of direction %s' % (3 + d, 'uvw'[d])
                su, sv = sizes[0], sizes[1]
                for k in range(total):
                    rec = lines[3 + pdim + k]
                    w_, r_ = divmod(k, su * sv)
                    idx = (r_ // su) + sv * (r_ % su) + su * sv * w_
                    if len(rec) != 4:
                        return 'point record %d has %d fields, the format stores (x, y, z, w)' % (k, len(rec))
                    for c in range(4):
                        v_ = _as_sym(_float(sk, None, rec[c]))
                        want = Sym(Pw[idx][c], Pw[idx][3]) if c < 3 else Sym(Pw[idx][3])
                        if v_ is None or not v_.same(want):
                            return 'point record %d (u = %d, v = %d%s) field %d holds %r; the format stores (x, y, z, w) of that control point, u varying first: %r' % (
                                k, r_ % su, r_ // su, ', w = %d' % w_ if pdim == 3 else '', c, v_, want)
                if lines[3 + pdim + total] != ['1']:
                    return 'the closing record is %r, the format ends with 1' % ' '.join(lines[3 + pdim + total])
                if any(ln for ln in lines[3 + pdim + total + 1:]):
                    return 'the file goes on after the closing record (%d more non-empty lines)' % sum(1 for ln in lines[3 + pdim + total + 1:] if ln)
                return None
            try:
                sfx = ['_' + 'uvw'[d] for d in range(pdim)]
                ranks = [[0] * (p + 1) + list(range(1, n - p)) + [n - p] * (p + 1) for p, n in zip(degs, sizes)]

                def build(lab):
                    src = sk.apply(('class', (mod, cname)), [], {}, None)
                    for d in range(pdim):
                        sk.call(m.lookup(src._cls, 'degree' + sfx[d], 'setters'), [src, degs[d]], {})
                    if mod == 'NURBS':
                        Pw = [[Poly.atom('%s%d_%d' % (lab, i, c)) for c in range(4)] for i in range(total)]
                    else:
                        Pw = [[Poly.atom('%s%d_%d' % (lab, i, c)) for c in range(3)] + [Poly.const(1)] for i in range(total)]
                    rows = [[Sym(x) for x in (r if mod == 'NURBS' else r[:3])] for r in Pw]
                    sk.call(m.lookup(src._cls, 'set_ctrlpts', 'methods'), [src, rows] + list(sizes), {})
                    for d in range(pdim):
                        sk.call(m.lookup(src._cls, 'knotvector' + sfx[d], 'setters'), [src, [Ord(10 * d + r) for r in ranks[d]]], {})
                    return src, Pw
                if multi:
                    srcs = [build('A'), build('B')]
                    arg = sk.apply(('class', ('multi', cname + 'Container')), [x[0] for x in srcs], {}, None)
                    names = ['mesh.1.txt', 'mesh.2.txt']
                else:
                    srcs = [build('P')]
                    arg = srcs[0][0]
                    names = ['mesh.txt']
                sk.call(m.func(exp), [arg, 'mesh.txt'], {})
                if sorted(files) != names or not all(isinstance(files[k_], str) for k_ in names):
                    why = 'the exporter writes %r; expected %r' % (sorted(files), names)
                for fname_, (src, Pw) in zip(names, srcs):
                    if why:
                        break
                    why = file_format(sk, files[fname_], Pw)
                    if why:
                        why = 'file %s: %s' % (fname_, why)
                        break
                    back = sk.call(m.func(imp), [fname_], {})
                    if isinstance(back, Bag):
                        run.extra.setdefault('imported_kv_normalize', {})[imp] = back._a.get('_kv_normalize')
                    b = back._a if isinstance(back, Bag) else {}
                    pre = 'file %s: ' % fname_ if multi else ''
                    if not isinstance(back, Bag) or back is src:
                        why = pre + 'the importer does not return a new shape'
                    elif list(b.get('_degree', [])) != list(degs):
                        why = pre + 'degrees come back as %s, exported %s' % (list(b.get('_degree', [])), list(degs))
                    elif list(b.get('_control_points_size', [])) != list(sizes):
                        why = pre + 'sizes come back as %s, exported %s' % (list(b.get('_control_points_size', [])), list(sizes))
                    elif [[getattr(k, 'rank', None) for k in kv] for kv in b.get('_knot_vector', [])] != [[10 * d + r for r in ranks[d]] for d in range(pdim)]:
                        why = pre + 'the knot vectors do not come back in their own directions'
                    else:
                        cp = b.get('_control_points', [])
                        if len(cp) != total:
                            why = pre + '%d control points come back, %d were exported' % (len(cp), total)
                        for i in range(total):
                            if why:
                                break
                            for c in range(4):
                                s_ = _as_sym(cp[i][c]) if len(cp[i]) > c else None
                                if s_ is None or not s_.same(Sym(Pw[i][c])):
                                    why = pre + 'homogeneous control point %d slot %d comes back as %s, exported %r' % (i, c, repr(cp[i][c])[:90] if len(cp[i]) > c else 'nothing', Pw[i][c])
                                    break
            except Violation as v:
                why = '%s %s' % (v.msg, v.where())
            except Unsupported as ex:
                raise AnalysisError('%s: interpreter met an unsupported construct: %s' % (key, ex))
            fe = m.func(exp)
            run.ob(rule, key, why is None, 'degrees, sizes, knot vectors and homogeneous control points come back exactly, position by position' if why is None else why,
                   'geomdl/exchange.py:%d in %s' % (fe.node.lineno, fe.key))


# ====================================================================================== C14: control point text / CSV formats, round trip on real classes
def tx2(m, run, rule='TX2.text-formats-round-trip-on-real-classes'):
    """TX2: exchange.export_txt / export_csv interpreted in text mode on a curve and a non-square surface (rational and B-spline) built
    by the classes' own constructors and setters with exact symbolic control points, default and custom separators, the file kept in memory:
    the text is one control point per line in storage order - or, two-dimensional, one line per u index holding the points of that row for
    v = 0 .. size_v - 1 separated by the column separator - (CSV: after one header line); exchange.import_txt / import_csv interpreted on
    that text return the very control points (rational: homogeneous) and, two-dimensional, size_u = number of lines, size_v = number of columns"""
    from .skel import Sym, _float
    from .poly import Poly
    shapes = (('Curve', (2,), (4,)), ('Surface', (2, 1), (3, 4)))
    for cname, degs, sizes in shapes:
        pdim = len(degs)
        total = 1
        for s_ in sizes:
            total *= s_
        for mod in ('NURBS', 'BSpline'):
            variants = [('txt', False, {}), ('txt', False, {'separator': ' '}), ('csv', False, {})]
            if pdim == 2:
                variants += [('txt', True, {}), ('txt', True, {'separator': ' ', 'col_separator': '|'})]
            else:
                variants += [('txt', True, {})]          # the flag is ignored for curves
            for fmt, two_d, kw in variants:
                key = 'exchange.export_%s -> import_%s :: %s.%s%s%s' % (fmt, fmt, mod, cname, ', two_dimensional' if two_d else '', ', separators %r' % kw if kw else '')
                files = {}
                ab = dict(STD_ABSTRACTED)
                ab[('knotvector', 'normalize')] = Py(lambda sk, node, kv, *a, **k: [Ord(x.rank) for x in kv], 'knotvector.normalize')
                ab[('_exchange', 'write_file')] = Py(lambda sk, node, name, content, **k: files.__setitem__(name, content) or True, 'write_file')

                def rd(sk, node, name, **k):
                    t = files[name]
                    n_ = k.get('skip_lines', 0)
                    return '\n'.join(t.split('\n')[n_:]) if n_ else t
                ab[('_exchange', 'read_file')] = Py(rd, 'read_file')
                sk = SK(m, ab)
                sk.exact = True
                sk.text = True
                sk.construct = True
                why = None
                try:
                    src = sk.apply(('class', (mod, cname)), [], {}, None)
                    sfx = [''] if pdim == 1 else ['_' + 'uvw'[d] for d in range(pdim)]
                    for d in range(pdim):
                        sk.call(m.lookup(src._cls, 'degree' + sfx[d], 'setters'), [src, degs[d]], {})
                    hd = 4 if mod == 'NURBS' else 3
                    P = [[Poly.atom('P%d_%d' % (i, c)) for c in range(hd)] for i in range(total)]
                    sk.call(m.lookup(src._cls, 'set_ctrlpts', 'methods'), [src, [[Sym(x) for x in r] for r in P]] + (list(sizes) if pdim > 1 else []), {})
                    if fmt == 'txt':
                        sk.call(m.func('exchange.export_txt'), [src, 'pts.txt'], dict(kw, two_dimensional=two_d))
                    else:
                        sk.call(m.func('exchange.export_csv'), [src, 'pts.txt'], {'point_type': 'ctrlpts'})
                    text = files.get('pts.txt')
                    sep, col = kw.get('separator', ','), kw.get('col_separator', ';')
                    eff2d = two_d and pdim == 2
                    if not isinstance(text, str):
                        why = 'no file is written'
                    else:
                        lines = text.split('\n')
                        if lines and lines[-1] == '':
                            lines = lines[:-1]
                        if fmt == 'csv':
                            lines = lines[1:]

                        def point_of(txt_, idx, where):
                            flds = [f_ for f_ in txt_.split(sep)]
                            if len(flds) != hd:
                                return '%s has %d fields, control point %d has %d coordinates' % (where, len(flds), idx, hd)
                            for c in range(hd):
                                v_ = _as_sym(_float(sk, None, flds[c]))
                                if v_ is None or not v_.same(Sym(P[idx][c])):
                                    return '%s field %d holds %r, expected coordinate %d of control point %d' % (where, c, v_, c, idx)
                            return None
                        if eff2d:
                            su, sv = sizes
                            if len(lines) != su:
                                why = 'the two-dimensional file has %d lines; one line per u index (%d) is documented' % (len(lines), su)
                            for i in range(su if why is None else 0):
                                cols = lines[i].split(col)
                                if len(cols) != sv:
                                    why = 'line %d has %d columns; the points of one u index for v = 0 .. %d are documented' % (i, len(cols), sv - 1)
                                    break
                                for j in range(sv):
                                    why = point_of(cols[j], j + sv * i, 'line %d column %d' % (i, j))
                                    if why:
                                        break
                                if why:
                                    break
                        else:
                            if len(lines) != total:
                                why = 'the file has %d point lines, the shape %d control points' % (len(lines), total)
                            for k in range(total if why is None else 0):
                                why = point_of(lines[k], k, 'line %d' % k)
                                if why:
                                    break
                    if why is None:
                        if fmt == 'txt':
                            back = sk.call(m.func('exchange.import_txt'), ['pts.txt'], dict(kw, two_dimensional=two_d))
                        else:
                            back = sk.call(m.func('exchange.import_csv'), ['pts.txt'], {})
                        if two_d:
                            if not isinstance(back, tuple) or len(back) != 3:
                                why = 'import with two_dimensional=True does not return (points, size_u, size_v)'
                            else:
                                pts_, a_, b_ = back
                                if pdim == 2 and (a_, b_) != tuple(sizes):
                                    why = 'the importer reports the sizes (%r, %r), the exported surface has %r' % (a_, b_, tuple(sizes))
                        else:
                            pts_ = back
                        if why is None and not (two_d and pdim == 1):
                            if not isinstance(pts_, list) or len(pts_) != total:
                                why = 'the importer returns %r points, %d were exported' % (len(pts_) if isinstance(pts_, list) else pts_, total)
                            for i in range(total if why is None else 0):
                                for c in range(hd):
                                    v_ = _as_sym(pts_[i][c]) if len(pts_[i]) > c else None
                                    if v_ is None or not v_.same(Sym(P[i][c])):
                                        why = 'control point %d coordinate %d comes back as %r, exported %r' % (i, c, v_, P[i][c])
                                        break
                                if why:
                                    break
                except Violation as v:
                    why = '%s %s' % (v.msg, v.where())
                except Unsupported as ex:
                    raise AnalysisError('%s: interpreter met an unsupported construct: %s' % (key, ex))
                fe = m.func('_exchange.export_text_data')
                run.ob(rule, key, why is None, 'documented line / column order; the control points come back exactly' if why is None else why, 'geomdl/_exchange.py:%d in %s' % (fe.node.lineno, fe.key))


# ====================================================================================== C16: row pivoting per order type of the column magnitudes
def pv4(m, run, rule='PV4.pivoting-per-order-type'):
    """PV4: linalg.matrix_pivot touches the matrix entries only through abs() and order comparisons, so what it does is fixed by the weak
    order of the magnitudes within each column.  It is interpreted (exact rational arithmetic) on one matrix of every such order type for
    n = 1, 2, 3 - ties and zero columns included, negative entries mixed in: the second result P is a permutation matrix (one 1 per row
    and column, 0 elsewhere), the first is P A (row i of it is the row of A that P selects), with sign=True the third result is the signature of the permutation, and A is left as
    it was"""
    import itertools
    from fractions import Fraction as F
    fi = m.func('linalg.matrix_pivot')

    def weak_orders(n):
        """all rank vectors of n items (weak orders): ranks 0..k-1 all used"""
        out = set()
        for r in itertools.product(range(n), repeat=n):
            if set(r) == set(range(max(r) + 1)):
                out.add(r)
        return sorted(out)
    bad, cnt = [], 0
    for n in (1, 2, 3):
        wo = weak_orders(n)
        for cols in itertools.product(wo, repeat=n):
            zc = ([None] + list(range(n)) if n > 1 else [None, 0]) if run.tier == 'thorough' else [None, sum(map(sum, cols)) % n]
            for zero_col in zc:
                cnt += 1
                A = [[None] * n for _ in range(n)]
                for j in range(n):
                    for i in range(n):
                        mag = F(0) if zero_col == j else F(cols[j][i] + 1) + F(j, 10)
                        A[i][j] = -mag if (i + 2 * j + cols[j][i]) % 3 == 0 else mag
                A0 = [list(r) for r in A]
                sk = SK(m, {})
                sk.exact = True
                why = None
                try:
                    out = sk.call(fi, [A], {'sign': True})
                    if not isinstance(out, tuple) or len(out) != 3:
                        why = 'with sign=True the result is not (matrix, permutation, sign)'
                    else:
                        mp, P, sgn = out
                        if A != A0:
                            why = 'the input matrix is modified'
                        elif not (isinstance(P, list) and len(P) == n and all(isinstance(r, list) and len(r) == n and all(x in (0, 1) for x in r) for r in P)
                                  and all(sum(r) == 1 for r in P) and all(sum(P[i][j] for i in range(n)) == 1 for j in range(n))):
                            why = 'the second result %r is not a permutation matrix' % (P,)
                        else:
                            perm = [r.index(1) for r in P]
                            if [list(r) for r in mp] != [A0[perm[i]] for i in range(n)]:
                                why = 'the first result %r is not P A = %r for the returned P (rows %s of A)' % (mp, [A0[perm[i]] for i in range(n)], perm)
                            else:
                                inv = sum(1 for a_ in range(n) for b_ in range(a_ + 1, n) if perm[a_] > perm[b_])
                                if why is None and sgn != (-1) ** inv:
                                    why = 'the sign result is %r, the signature of the permutation %s is %d' % (sgn, perm, (-1) ** inv)
                    if why is None:
                        out2 = sk.call(fi, [A], {})
                        if not isinstance(out2, tuple) or len(out2) != 2 or [list(r) for r in out2[0]] != [list(r) for r in out[0]] or out2[1] != out[1]:
                            why = 'without sign the result differs from the first two results with sign=True'
                except Violation as v:
                    why = '%s %s' % (v.msg, v.where())
                except Unsupported as ex:
                    raise AnalysisError('%s: interpreter met an unsupported construct: %s' % (fi.key, ex))
                if why:
                    bad.append(('A = %s' % [[str(x) for x in r] for r in A0], why))
    run.ob(rule, '%s :: %d order types of column magnitudes, n = 1..3' % (fi.key, cnt), not bad,
           'P is a permutation matrix, the matrix returned is P A, the sign is the signature of P, the input is untouched' if not bad else
           '%s: %s   [%d of %d cases]' % (bad[0][0], bad[0][1], len(bad), cnt), 'geomdl/linalg.py:%d in %s' % (fi.node.lineno, fi.key))


# ====================================================================================== C18: bounding box per order type of the coordinates
def bb2(m, run, rule='BB2.bounding-box-per-order-type'):
    """BB2: utilities.evaluate_bounding_box touches the coordinates only through order comparisons (and with the infinities it starts
    from), so its result is fixed by the weak order of the values of each coordinate.  Interpreted on 1 .. 3 (thorough: 4) points in the
    plane and in space whose coordinates are order tokens, every combination of weak orders (ties included): the result is a pair
    (minimum corner, maximum corner) whose coordinate c is the least / greatest c-coordinate among the points - the very tokens"""
    import itertools
    fi = m.func('utilities.evaluate_bounding_box')

    def weak_orders(n):
        return sorted({r for r in itertools.product(range(n), repeat=n) if set(r) == set(range(max(r) + 1))})
    bad, cnt = [], 0
    for n in range(1, 5 if run.tier == 'thorough' else 4):
        wo = weak_orders(n)
        for dim in (2, 3):
            combos = itertools.product(wo, repeat=dim) if (dim == 2 or n <= 2) else ((a_, b_, wo[(ia + ib) % len(wo)]) for ia, a_ in enumerate(wo) for ib, b_ in enumerate(wo))
            for orders in combos:
                cnt += 1
                P = [[Ord(orders[c][i] + 10 * c) for c in range(dim)] for i in range(n)]
                sk = SK(m, {})
                why = None
                try:
                    out = sk.call(fi, [P], {})
                    if not isinstance(out, tuple) or len(out) != 2 or any(not isinstance(x, (tuple, list)) or len(x) != dim for x in out):
                        why = 'the result %r is not (minimum corner, maximum corner)' % (out,)
                    else:
                        for c in range(dim):
                            lo, hi = min(orders[c]) + 10 * c, max(orders[c]) + 10 * c
                            g_lo, g_hi = getattr(out[0][c], 'rank', None), getattr(out[1][c], 'rank', None)
                            if g_lo != lo or g_hi != hi:
                                why = 'coordinate %d: the box is [%r, %r], the points span [%r, %r] (ranks)' % (c, out[0][c], out[1][c], lo, hi)
                                break
                except Violation as v:
                    why = '%s %s' % (v.msg, v.where())
                except Unsupported as ex:
                    raise AnalysisError('%s: interpreter met an unsupported construct: %s' % (fi.key, ex))
                if why:
                    bad.append(('%d points with coordinate ranks %s' % (n, [list(o_) for o_ in orders]), why))
    run.ob(rule, '%s :: %d order types' % (fi.key, cnt), not bad, 'coordinate-wise minimum and maximum of the points' if not bad else '%s: %s   [%d of %d cases]' % (bad[0][0], bad[0][1], len(bad), cnt),
           'geomdl/utilities.py:%d in %s' % (fi.node.lineno, fi.key))


# ====================================================================================== C18: polyline length
def ln2(m, run, rule='LN2.length-is-the-sum-of-consecutive-chords'):
    """LN2: operations.length_curve interpreted on a curve stand-in with 1 .. 6 labelled evaluated points, linalg.point_distance replaced by a
    symbolic chord d{i,j} of the two points it is given: the result is exactly d{0,1} + d{1,2} + ... + d{n-2,n-1} (0 for a single point) -
    every consecutive pair once, nothing else"""
    from .skel import Sym
    from .poly import Poly
    fi = m.func('operations.length_curve')
    bad, cnt = [], 0
    for n in range(1, 7):
        cnt += 1
        P = pts(n, 3, labelled=True)
        obj = Bag('rec:Curve', evalpts=P, pdimension=1, rational=False, dimension=3, type='spline')
        obj._a['__isa__'] = (('BSpline', 'Curve'),)

        def dist(sk, node, a, b):
            fa, fb = footprint(a), footprint(b)
            if not fa or not fb or len(fa) != 1 or len(fb) != 1:
                raise Violation('LN2', 'point_distance is not given two of the evaluated points', node)
            i, j = sorted([next(iter(fa)), next(iter(fb))])
            return Sym('d%s_%s' % (i, j))
        ab = dict(STD_ABSTRACTED)
        ab[('linalg', 'point_distance')] = Py(dist, 'point_distance')
        sk = SK(m, ab)
        sk.exact = True
        why = None
        try:
            out = sk.call(fi, [obj], {})
            want = Poly()
            for i in range(n - 1):
                want = want + Poly.atom('d%d_%d' % (i, i + 1))
            s_ = _as_sym(out)
            if s_ is None or not s_.same(Sym(want)):
                why = 'returns %r, the polyline through the %d points has length %r' % (out, n, want)
        except Violation as v:
            why = '%s %s' % (v.msg, v.where())
        except Unsupported as ex:
            raise AnalysisError('%s: interpreter met an unsupported construct: %s' % (fi.key, ex))
        if why:
            bad.append(('%d evaluated points' % n, why))
    run.ob(rule, '%s :: 1 .. 6 evaluated points' % fi.key, not bad, 'sum over consecutive pairs of the sampled points' if not bad else '%s: %s   [%d of %d cases]' % (bad[0][0], bad[0][1], len(bad), cnt),
           'geomdl/operations.py:%d in %s' % (fi.node.lineno, fi.key))


# ====================================================================================== C12 / C18: the container's box follows its elements
def cb2(m, run, rule='CB2.container-box-follows-its-elements'):
    """CB2: a real multi.CurveContainer / SurfaceContainer holding two shapes of the real classes (coordinates are order tokens) is asked for
    its bounding box, then one element gets new control points through its own setter (so that the box must grow), then the container is
    asked again: the second answer is the box of the new state (the coordinate-wise extremes of the two element boxes), not the first
    answer; the same after replacing the control points of the other element and after adding a third element"""
    for cname, degs, sizes in (('Curve', (1,), (3,)), ('Surface', (1, 1), (2, 3))):
        pdim = len(degs)
        total = 1
        for s_ in sizes:
            total *= s_
        key = 'multi.%sContainer.bbox :: read, edit an element, read again' % cname
        ab = dict(STD_ABSTRACTED)
        ab[('knotvector', 'normalize')] = Py(lambda sk, node, kv, *a, **k: [Ord(x.rank) for x in kv], 'knotvector.normalize')
        sk = SK(m, ab)
        sk.construct = True
        why = None

        def mk(base):
            o_ = sk.apply(('class', ('BSpline', cname)), [], {}, None)
            sfx = [''] if pdim == 1 else ['_' + 'uvw'[d] for d in range(pdim)]
            for d in range(pdim):
                sk.call(m.lookup(o_._cls, 'degree' + sfx[d], 'setters'), [o_, degs[d]], {})
            setpts(o_, base)
            for d in range(pdim):
                p, n = degs[d], sizes[d]
                sk.call(m.lookup(o_._cls, 'knotvector' + sfx[d], 'setters'), [o_, [Ord(r) for r in [0] * (p + 1) + list(range(1, n - p)) + [n - p] * (p + 1)]], {})
            return o_

        def setpts(o_, base):
            rows = [[Ord(base + i + 100 * c) for c in range(3)] for i in range(total)]
            sk.call(m.lookup(o_._cls, 'set_ctrlpts', 'methods'), [o_, rows] + (list(sizes) if pdim > 1 else []), {})

        def box(cont):
            b = sk.call(m.lookup(cont._cls, 'bbox', 'getters'), [cont], {})
            return tuple(tuple(getattr(x, 'rank', None) for x in corner) for corner in b) if isinstance(b, (tuple, list)) and len(b) == 2 else b

        def want(bases):
            lo, hi = min(bases), max(bases) + total - 1
            return (tuple(lo + 100 * c for c in range(3)), tuple(hi + 100 * c for c in range(3)))
        try:
            a_, b_ = mk(10), mk(20)
            cont = sk.apply(('class', ('multi', cname + 'Container')), [a_, b_], {}, None)
            steps = [('first read', None, (10, 20))]
            steps.append(('after new control points for the second element', lambda: setpts(b_, 50), (10, 50)))
            steps.append(('after new control points for the first element', lambda: setpts(a_, 1), (1, 50)))

            def add_third():
                c_ = mk(70)
                sk.call(m.lookup(cont._cls, 'add', 'methods'), [cont, c_], {})
            steps.append(('after adding a third element', add_third, (1, 50, 70)))
            for what, act, bases in steps:
                if act is not None:
                    act()
                got = box(cont)
                if got != want(bases):
                    why = '%s the container reports the box %r; its elements span %r (ranks)%s' % (what, got, want(bases), ' - a stale aggregate' if act is not None else '')
                    break
        except Violation as v:
            why = '%s %s' % (v.msg, v.where())
        except Unsupported as ex:
            raise AnalysisError('%s: interpreter met an unsupported construct: %s' % (key, ex))
        g = m.lookup(('multi', cname + 'Container'), 'bbox', 'getters')
        run.ob(rule, key, why is None, 'every read gives the box of the current elements' if why is None else why, 'geomdl/multi.py:%s in %s' % (g.node.lineno if g else '?', g.key if g else 'bbox'))


# ====================================================================================== C19: equality on pairs that differ in one component
def eq2(m, run, rule='EQ2.equality-on-pairs-differing-in-one-component'):
    """EQ2: SplineGeometry.__eq__ / __ne__ interpreted on pairs of abstract shapes (curve, surface, volume; B-spline and rational) whose
    knots and homogeneous coordinates are order tokens (two tokens whose ranks differ by less than the round-off threshold stand for
    values within every tolerance, any other two for values further apart than the tolerance): a shape equals itself and a copy of
    itself, also when every value is moved by less than the comparison tolerance; it is unequal - in both orders, and != is the negation - to a shape that
    differs in exactly one of: parametric kind, rationality, one degree, one size (with consistent lists), one knot, the length of a knot
    vector, one coordinate of one control point (the weight slot of a rational shape included), the number of control points of a curve; and to
    objects that are not shapes"""
    fe = m.lookup(('BSpline', 'Curve'), '__eq__', 'methods')
    fn = m.lookup(('BSpline', 'Curve'), '__ne__', 'methods')
    if fe is None or fn is None:
        raise AnalysisError('SplineGeometry.__eq__ / __ne__ not found')

    def shape(mod, cname, degs, sizes):
        pdim = len(degs)
        total = 1
        for s_ in sizes:
            total *= s_
        hd = 4 if mod == 'NURBS' else 3
        kv = [[Ord(1000 * d + r) for r in [0] * (p + 1) + list(range(1, n - p)) + [n - p] * (p + 1)] for d, (p, n) in enumerate(zip(degs, sizes))]
        cp = [[Ord(5000 + 10 * i + c) for c in range(hd)] for i in range(total)]
        return Bag((mod, cname), _pdim=pdim, _rational=(mod == 'NURBS'), _degree=list(degs), _knot_vector=kv, _control_points=cp, _control_points_size=list(sizes),
                   _precision=18, _dimension=hd, _kv_normalize=True, _delta=[0.1] * pdim, _cache={}, _name='s', _id=0, _opt_data={}, _array_type=None, _eval_points=[],
                   _bounding_box=[], _geometry_type='spline', _evaluator=None, _control_points2D=[], _trims=[])

    def clone(b):
        c = Bag(b._cls)
        for k, v in b._a.items():
            c._a[k] = deepcopy_plain(v) if not isinstance(v, list) else [list(x) if isinstance(x, list) else x for x in v]
        return c
    kinds = (('Curve', (2,), (4,)), ('Surface', (2, 1), (3, 4)), ('Volume', (1, 2, 1), (2, 3, 2)))
    bad, cnt = [], 0

    def ask(a, b):
        sk = SK(m, dict(STD_ABSTRACTED))
        e = sk.call(fe, [a, b], {})
        sk2 = SK(m, dict(STD_ABSTRACTED))
        ne = sk2.call(fn, [a, b], {})
        return e, ne
    for mod in ('BSpline', 'NURBS'):
        for cname, degs, sizes in kinds:
            base = shape(mod, cname, degs, sizes)
            pdim = len(degs)
            variants = [('itself', base, True), ('a copy', clone(base), True)]
            near = clone(base)
            near._a['_knot_vector'] = [[Ord(k.rank + 1e-6) for k in kv] for kv in near._a['_knot_vector']]
            near._a['_control_points'] = [[Ord(x.rank - 1e-6) for x in r] for r in near._a['_control_points']]
            variants.append(('a copy with every knot and coordinate moved by less than the tolerance', near, True))
            for d in range(pdim):
                v = clone(base)
                v._a['_degree'][d] += 1
                variants.append(('a copy whose degree in direction %d is one higher' % d, v, False))
                v = clone(base)
                kvd = v._a['_knot_vector'][d]
                kvd[len(kvd) // 2] = Ord(kvd[len(kvd) // 2].rank + 0.5)
                variants.append(('a copy with one knot of direction %d moved' % d, v, False))
                v = clone(base)
                v._a['_knot_vector'][d] = v._a['_knot_vector'][d] + [v._a['_knot_vector'][d][-1]]
                variants.append(('a copy whose knot vector of direction %d has one more knot' % d, v, False))
                v = clone(base)
                kvd = v._a['_knot_vector'][d]
                kvd[-1] = Ord(kvd[-1].rank + 0.5)
                variants.append(('a copy with the last knot of direction %d moved' % d, v, False))
            if pdim > 1:
                v = clone(base)
                s_ = v._a['_control_points_size']
                s_[0], s_[1] = s_[1], s_[0]
                variants.append(('a copy with the sizes of the first two directions exchanged (same total)', v, False))
            hd = 4 if mod == 'NURBS' else 3
            for (i, c) in ((0, 0), (len(base._a['_control_points']) - 1, hd - 1), (len(base._a['_control_points']) // 2, 1)):
                v = clone(base)
                v._a['_control_points'][i][c] = Ord(v._a['_control_points'][i][c].rank + 0.5)
                variants.append(('a copy with coordinate %d of control point %d moved%s' % (c, i, ' (the weight)' if mod == 'NURBS' and c == hd - 1 else ''), v, False))
            if pdim == 1:
                v = clone(base)
                v._a['_control_points'] = v._a['_control_points'][:-1]
                v._a['_control_points_size'][0] -= 1
                v._a['_knot_vector'][0] = v._a['_knot_vector'][0][:-1]
                variants.append(('a curve with one control point (and knot) less', v, False))
            other_mod = 'NURBS' if mod == 'BSpline' else 'BSpline'
            v = clone(base)
            v.__dict__['_cls'] = (other_mod, cname)
            v._a['_rational'] = not base._a['_rational']
            variants.append(('the same data as a %s shape' % ('rational' if other_mod == 'NURBS' else 'non-rational'), v, False))
            for oc, od, os_ in kinds:
                if oc != cname:
                    variants.append(('a %s' % oc.lower(), shape(mod, oc, od, os_), False))
            if pdim < 3:
                # a shape of the next parametric kind that agrees with this one in all its directions and in its first control points
                nxt = 'Surface' if pdim == 1 else 'Volume'
                v = shape(mod, nxt, tuple(degs) + (1,), tuple(sizes) + (2,))
                for i_, row in enumerate(base._a['_control_points']):
                    v._a['_control_points'][i_] = list(row)
                variants.append(('a %s that agrees with it in the first %d direction(s) and the first control points' % (nxt.lower(), pdim), v, False))
            variants.append(('the number 5', 5, False))
            variants.append(('None', None, False))
            variants.append(('an object without the attributes of a shape', Bag('rec:other', name='x'), False))
            for what, other, want in variants:
                # (the moved copy is compared at a precision of 6 digits on both sides: the tolerance 10^-6 is above the displacement)
                lhs = base
                if other is near:
                    lhs = clone(base)
                    lhs._a['_precision'] = 6
                    near._a['_precision'] = 6
                for a, b, order in ((lhs, other, 'shape == other'), (other, lhs, 'other == shape')):
                    if not isinstance(a, Bag) or not isinstance(a._cls, tuple):
                        continue
                    cnt += 1
                    try:
                        e, ne = ask(a, b)
                        if e is not want or ne is not (not want):
                            bad.append(('%s.%s against %s (%s)' % (mod, cname, what, order), '== gives %r and != gives %r, expected %r and %r' % (e, ne, want, not want)))
                    except Violation as v_:
                        bad.append(('%s.%s against %s (%s)' % (mod, cname, what, order), '%s %s' % (v_.msg, v_.where())))
                    except Unsupported as ex:
                        raise AnalysisError('%s: interpreter met an unsupported construct: %s (%s.%s against %s)' % (fe.key, ex, mod, cname, what))
    run.ob(rule, '%s :: %d ordered pairs' % (fe.key, cnt), not bad, 'equal exactly when no component differs by more than the tolerance; symmetric; != is the negation' if not bad else
           '%s: %s   [%d of %d pairs]' % (bad[0][0], bad[0][1], len(bad), cnt), 'geomdl/abstract.py:%d in %s' % (fe.node.lineno, fe.key))


# ====================================================================================== C03: what the knot vector setters accept
def gd3(m, run, rule='GD3.knot-vector-setters-accept-valid-vectors-only'):
    """GD3: every public knot vector setter of the six spline classes (knotvector, knotvector_u / _v / _w) interpreted on objects built by the
    classes' own constructors and setters (different degree and size per direction, knots are order tokens, knotvector.check is the real
    one): a valid clamped vector of the direction's own length is stored in that direction and in no other; a vector with one knot too
    many, one too few, a decreasing pair, or the valid vector of another direction (different length) is rejected with an exception and
    is not what the direction holds afterwards; the list-valued setter stores every direction when all are valid and raises when one is not"""
    kinds = (('Curve', (2,), (5,)), ('Surface', (2, 1), (5, 4)), ('Volume', (1, 2, 3), (3, 5, 6)))
    for mod in ('BSpline', 'NURBS'):
        for cname, degs, sizes in kinds:
            pdim = len(degs)
            total = 1
            for s_ in sizes:
                total *= s_
            sfx = [''] if pdim == 1 else ['_' + 'uvw'[d] for d in range(pdim)]
            bad, cnt = [], 0

            def ranks_of(d, shift=0):
                p, n = degs[d], sizes[d]
                return [shift + r for r in [0] * (p + 1) + list(range(1, n - p)) + [n - p] * (p + 1)]

            def fresh():
                ab = dict(STD_ABSTRACTED)
                ab[('knotvector', 'normalize')] = Py(lambda sk, node, kv, *a, **k: [Ord(x.rank) for x in kv], 'knotvector.normalize')
                sk = SK(m, ab)
                sk.construct = True
                o_ = sk.apply(('class', (mod, cname)), [], {}, None)
                for d in range(pdim):
                    sk.call(m.lookup(o_._cls, 'degree' + sfx[d], 'setters'), [o_, degs[d]], {})
                hd = 4 if mod == 'NURBS' else 3
                sk.call(m.lookup(o_._cls, 'set_ctrlpts', 'methods'), [o_, pts(total, hd)] + (list(sizes) if pdim > 1 else []), {})
                for d in range(pdim):
                    sk.call(m.lookup(o_._cls, 'knotvector' + sfx[d], 'setters'), [o_, [Ord(r) for r in ranks_of(d)]], {})
                return sk, o_

            def held(o_):
                return [[getattr(k, 'rank', None) for k in kv] for kv in o_._a['_knot_vector']]

            def attempt(name, value):
                sk, o_ = fresh()
                before = held(o_)
                try:
                    sk.call(m.lookup(o_._cls, name, 'setters'), [o_, value], {})
                    return 'stored', before, held(o_)
                except Violation as v:
                    if v.rule != 'RAISE':
                        raise
                    return 'raised', before, held(o_)
            try:
                for d in range(pdim):
                    name = 'knotvector' + sfx[d]
                    if m.lookup((mod, cname), name, 'setters') is None:
                        raise AnalysisError('%s.%s: no setter %s' % (mod, cname, name))
                    good = ranks_of(d, 100)
                    cases = [('a valid vector', good, True),
                             ('a vector with one knot too many', good + [good[-1]], False),
                             ('a vector with one knot too few', good[:-1], False),
                             ('a vector with a decreasing pair', good[:degs[d] + 1] + [good[-1] + 1] + good[degs[d] + 1:], False)]
                    for d2 in range(pdim):
                        if d2 != d and len(ranks_of(d2)) != len(good):
                            cases.append(('the valid vector of direction %s' % 'uvw'[d2], ranks_of(d2, 100), False))
                    for what, rk, ok in cases:
                        cnt += 1
                        res, before, after = attempt(name, [Ord(r) for r in rk])
                        if ok:
                            want = list(before)
                            want[d] = rk
                            if res != 'stored' or after != want:
                                bad.append(('%s = %s' % (name, what), 'the setter %s; the direction holds %r afterwards' % ('raises' if res == 'raised' else 'returns', after[d])))
                        else:
                            if res != 'raised':
                                bad.append(('%s = %s' % (name, what), 'accepted: the object now holds a knot vector that knotvector.check rejects for degree %d and %d control points' % (degs[d], sizes[d])))
                            elif after[d] == rk:
                                bad.append(('%s = %s' % (name, what), 'an exception is raised but the rejected vector is stored'))
                if pdim > 1:
                    name = 'knotvector'
                    if m.lookup((mod, cname), name, 'setters') is None:
                        raise AnalysisError('%s.%s: no setter knotvector' % (mod, cname))
                    cnt += 1
                    allgood = [ranks_of(d, 100) for d in range(pdim)]
                    res, before, after = attempt(name, [[Ord(r) for r in rk] for rk in allgood])
                    if res != 'stored' or after != allgood:
                        bad.append(('knotvector = valid vectors for every direction', 'the setter %s; the object holds %r' % ('raises' if res == 'raised' else 'returns', after)))
                    for d in range(pdim):
                        cnt += 1
                        val = [list(rk) for rk in allgood]
                        val[d] = val[d][:-1]
                        res, before, after = attempt(name, [[Ord(r) for r in rk] for rk in val])
                        if res != 'raised':
                            bad.append(('knotvector = vectors of which the one of direction %s is one knot short' % 'uvw'[d], 'accepted'))
                        elif after[d] == val[d]:
                            bad.append(('knotvector = vectors of which the one of direction %s is one knot short' % 'uvw'[d], 'an exception is raised but the rejected vector is stored'))
            except Violation as v:
                bad.append(('setting up the object', '%s %s' % (v.msg, v.where())))
            except Unsupported as ex:
                raise AnalysisError('%s.%s knot vector setters: interpreter met an unsupported construct: %s' % (mod, cname, ex))
            ci = m.classes[(mod, cname)]
            run.ob(rule, '%s.%s :: %d assignments' % (mod, cname, cnt), not bad, 'valid vectors are stored in their own direction, invalid ones rejected and not stored' if not bad else
                   '%s: %s   [%d of %d]' % (bad[0][0], bad[0][1], len(bad), cnt), 'geomdl/%s.py:%d in %s.%s' % (mod, ci.node.lineno, mod, cname))


# ====================================================================================== C14: JSON files of shapes and containers, through the public functions
def jr3(m, run, rule='JR3.json-file-round-trip-of-shapes-and-containers'):
    """JR3: exchange.export_json followed by exchange.import_json, interpreted on a single rational volume, a container of two rational
    surfaces (non-square, different from each other) and a container of three B-spline curves, all built by the real classes with exact
    symbolic data; the file is kept in memory and json.dumps / json.loads are modelled as the function they are on plain data (tuples
    become lists, keys strings): the import returns as many shapes as were exported, in order, each with the degrees, sizes, knot vectors,
    homogeneous control points and delta of its source - and a delta given to import_json overrides the stored one for every shape"""
    from .skel import Sym
    from .poly import Poly
    groups = (('a rational volume', [('NURBS', 'Volume', (1, 2, 1), (2, 3, 2))], None),
              ('a container of two rational surfaces', [('NURBS', 'Surface', (2, 1), (3, 4)), ('NURBS', 'Surface', (1, 2), (2, 3))], 'SurfaceContainer'),
              ('a container of three B-spline curves', [('BSpline', 'Curve', (2,), (4,)), ('BSpline', 'Curve', (1,), (3,)), ('BSpline', 'Curve', (3,), (5,))], 'CurveContainer'))
    for what, specs, cont in groups:
        for delta_arg in (None, 0.25):
            key = 'exchange.export_json -> import_json :: %s%s' % (what, ', import with delta=%s' % delta_arg if delta_arg else '')
            files = {}
            ab = dict(STD_ABSTRACTED)
            ab[('knotvector', 'normalize')] = Py(lambda sk, node, kv, *a, **k: [Ord(x.rank) for x in kv], 'knotvector.normalize')
            ab[('_exchange', 'write_file')] = Py(lambda sk, node, name, content, **k: files.__setitem__(name, content) or True, 'write_file')
            ab[('_exchange', 'read_file')] = Py(lambda sk, node, name, **k: files[name], 'read_file')
            sk = SK(m, ab)
            sk.exact = True
            sk.construct = True
            why = None

            def setp(obj, name, value):
                sk.call(m.lookup(obj._cls, name, 'setters'), [obj, value], {})

            def getp(obj, name):
                return sk.call(m.lookup(obj._cls, name, 'getters'), [obj], {})
            try:
                srcs = []
                for e_, (mod, cname, degs, sizes) in enumerate(specs):
                    pdim = len(degs)
                    total = 1
                    for s_ in sizes:
                        total *= s_
                    sfx = [''] if pdim == 1 else ['_' + 'uvw'[d] for d in range(pdim)]
                    o_ = sk.apply(('class', (mod, cname)), [], {}, None)
                    for d in range(pdim):
                        setp(o_, 'degree' + sfx[d], degs[d])
                    hd = 4 if mod == 'NURBS' else 3
                    P = [[Poly.atom('S%dP%d_%d' % (e_, i, c)) for c in range(hd)] for i in range(total)]
                    sk.call(m.lookup(o_._cls, 'set_ctrlpts', 'methods'), [o_, [[Sym(x) for x in r] for r in P]] + (list(sizes) if pdim > 1 else []), {})
                    ranks = [[100 * e_ + 10 * d + r for r in [0] * (p + 1) + list(range(1, n - p)) + [n - p] * (p + 1)] for d, (p, n) in enumerate(zip(degs, sizes))]
                    for d in range(pdim):
                        setp(o_, 'knotvector' + sfx[d], [Ord(r) for r in ranks[d]])
                    setp(o_, 'delta', 0.125 / (e_ + 1))
                    Pw = [r if hd == 4 else r + [Poly.const(1)] for r in P]
                    srcs.append((o_, degs, sizes, ranks, Pw, getp(o_, 'delta')))
                arg = srcs[0][0] if cont is None else sk.apply(('class', ('multi', cont)), [x[0] for x in srcs], {}, None)
                sk.call(m.func('exchange.export_json'), [arg, 'shapes.json'], {})
                if list(files) != ['shapes.json']:
                    why = 'the exporter writes %r' % sorted(files)
                else:
                    back = sk.call(m.func('exchange.import_json'), ['shapes.json'], {'delta': delta_arg} if delta_arg else {})
                    if not isinstance(back, list) or len(back) != len(srcs):
                        why = '%r shapes come back, %d were exported' % (len(back) if isinstance(back, list) else back, len(srcs))
                    for e_, (src, degs, sizes, ranks, Pw, dlt) in enumerate(srcs if why is None else []):
                        b_ = back[e_]
                        a_ = b_._a if isinstance(b_, Bag) else {}
                        pre = 'shape %d: ' % e_ if len(srcs) > 1 else ''
                        if not isinstance(b_, Bag) or b_ is src:
                            why = pre + 'not a new shape'
                        elif list(a_.get('_degree', [])) != list(degs) or list(a_.get('_control_points_size', [])) != list(sizes):
                            why = pre + 'degrees / sizes come back as %s / %s, exported %s / %s' % (list(a_.get('_degree', [])), list(a_.get('_control_points_size', [])), list(degs), list(sizes))
                        elif [[getattr(k, 'rank', None) for k in kv] for kv in a_.get('_knot_vector', [])] != ranks:
                            why = pre + 'the knot vectors do not come back (each shape its own, each direction its own)'
                        else:
                            cp = a_.get('_control_points', [])
                            if len(cp) != len(Pw):
                                why = pre + '%d control points come back, %d were exported' % (len(cp), len(Pw))
                            for i in range(len(Pw) if why is None else 0):
                                for c in range(4):
                                    s_ = _as_sym(cp[i][c]) if len(cp[i]) > c else None
                                    if s_ is None or not s_.same(Sym(Pw[i][c])):
                                        why = pre + 'homogeneous control point %d slot %d comes back as %r, exported %r' % (i, c, cp[i][c] if len(cp[i]) > c else None, Pw[i][c])
                                        break
                                if why:
                                    break
                            if why is None:
                                want = dlt if not delta_arg else tuple([delta_arg] * len(degs)) if isinstance(dlt, tuple) else delta_arg
                                got = getp(b_, 'delta')
                                if got != want:
                                    why = pre + 'delta is %r after the import, expected %r (%s)' % (got, want, 'the value given to import_json' if delta_arg else 'the exported one')
                        if why:
                            break
            except Violation as v:
                why = '%s %s' % (v.msg, v.where())
            except Unsupported as ex:
                raise AnalysisError('%s: interpreter met an unsupported construct: %s' % (key, ex))
            fe = m.func('exchange.export_json')
            run.ob(rule, key, why is None, 'every shape comes back, in order, with its own definition and delta' if why is None else why, 'geomdl/exchange.py:%d in %s' % (fe.node.lineno, fe.key))


# ====================================================================================== C09: the six weight converters, exactly
def ws6(m, run, rule='WS6.weight-converters-exact'):
    """WS6: the six converters of compatibility.py interpreted on exact symbolic points (coordinates X, weights W, dimension 2 and 3, one
    point and several, a 2 x 3 grid for the 2-D variants): generate_ctrlptsw[2d] maps (x.., w) to (x w.., w); generate_ctrlpts[2d]_weights
    maps (xw.., w) to (xw / w.., w); combine_ctrlpts_weights pairs point i with weight i (unit weights when none are given) and appends
    the weight; separate_ctrlpts_weights returns [points, weights] with point i divided by its own last slot; every result is made of
    fresh lists, the input is left as it was, and each generate / combine function is inverted by its partner"""
    from .skel import Sym
    from .poly import Poly

    def S(rows):
        return [[Sym(x) for x in r] for r in rows]

    def eq_rows(got, want):
        if not isinstance(got, (list, tuple)) or len(got) != len(want):
            return 'returns %r rows, expected %d' % (len(got) if isinstance(got, (list, tuple)) else got, len(want))
        for i, (g_, w_) in enumerate(zip(got, want)):
            if not isinstance(g_, (list, tuple)) or len(g_) != len(w_):
                return 'row %d has %r entries, expected %d' % (i, len(g_) if isinstance(g_, (list, tuple)) else g_, len(w_))
            for c, (a, b) in enumerate(zip(g_, w_)):
                s_ = _as_sym(a)
                if s_ is None or not s_.same(b):
                    return 'point %d slot %d is %r, expected %r' % (i, c, a, b)
        return None

    def call(key, args, kw=None):
        sk = SK(m, {})
        sk.exact = True
        return sk.call(m.func(key), args, kw or {})
    for key in ('generate_ctrlptsw', 'generate_ctrlpts_weights', 'generate_ctrlptsw2d', 'generate_ctrlpts2d_weights', 'combine_ctrlpts_weights', 'separate_ctrlpts_weights'):
        fi = m.func('compatibility.' + key)
        bad, cnt = [], 0
        for dim in (2, 3):
            for n in (1, 4):
                cnt += 1
                X = [[Poly.atom('X%d_%d' % (i, c)) for c in range(dim)] for i in range(n)]
                W = [Poly.atom('W%d' % i) for i in range(n)]
                why = None
                try:
                    two_d = '2d' in key
                    if key.startswith('generate'):
                        mul = 'ctrlptsw' in key
                        rows = [r + [w] for r, w in zip(X, W)]
                        want = [[Sym(x * w) if mul else Sym(x, w) for x in r] + [Sym(w)] for r, w in zip(X, W)]
                        if two_d:
                            if n == 1:
                                grid_in, grid_want = [S(rows)], [want]
                            else:
                                grid_in, grid_want = [S(rows[:2]), S(rows[2:])], [want[:2], want[2:]]
                            keep = [[list(p) for p in r] for r in grid_in]
                            out = call('compatibility.' + key, [grid_in])
                            if not isinstance(out, (list, tuple)) or len(out) != len(grid_want):
                                why = 'returns %r rows of points' % (len(out) if isinstance(out, (list, tuple)) else out)
                            else:
                                for r_, (g_, w_) in enumerate(zip(out, grid_want)):
                                    why = eq_rows(g_, w_)
                                    if why:
                                        why = 'grid row %d: %s' % (r_, why)
                                        break
                            if why is None and any(a is b for ro, ri in zip(out, grid_in) for a in ro for b in ri):
                                why = 'a point list of the input is handed back in the result'
                            if why is None and [[list(p) for p in r] for r in grid_in] != keep:
                                why = 'the input is modified'
                        else:
                            inp = S(rows)
                            keep = [list(p) for p in inp]
                            out = call('compatibility.' + key, [inp])
                            why = eq_rows(out, want)
                            if why is None and any(a is b for a in out for b in inp):
                                why = 'a point list of the input is handed back in the result'
                            if why is None and [list(p) for p in inp] != keep:
                                why = 'the input is modified'
                        # the partner inverts it
                        if why is None:
                            partner = {'generate_ctrlptsw': 'generate_ctrlpts_weights', 'generate_ctrlpts_weights': 'generate_ctrlptsw',
                                       'generate_ctrlptsw2d': 'generate_ctrlpts2d_weights', 'generate_ctrlpts2d_weights': 'generate_ctrlptsw2d'}[key]
                            back = call('compatibility.' + partner, [out])
                            flat_back = [p for r in back for p in r] if two_d else back
                            why = eq_rows(flat_back, [[Sym(x) for x in r] for r in rows])
                            if why:
                                why = '%s does not invert it: %s' % (partner, why)
                    elif key == 'combine_ctrlpts_weights':
                        inp, wts = S(X), [Sym(w) for w in W]
                        out = call('compatibility.' + key, [inp, wts])
                        why = eq_rows(out, [[Sym(x * w) for x in r] + [Sym(w)] for r, w in zip(X, W)])
                        if why is None:
                            out1 = call('compatibility.' + key, [S(X)])
                            why = eq_rows(out1, [[Sym(x) for x in r] + [Sym(Poly.const(1))] for r in X])
                            if why:
                                why = 'without weights: ' + why
                        if why is None:
                            back = call('compatibility.separate_ctrlpts_weights', [out])
                            why = (None if isinstance(back, (list, tuple)) and len(back) == 2 else 'separate does not return [points, weights]') or eq_rows(back[0], S(X)) or eq_rows([back[1]], [[Sym(w) for w in W]])
                            if why:
                                why = 'separate_ctrlpts_weights does not invert it: %s' % why
                    else:
                        rows = [[x * w for x in r] + [w] for r, w in zip(X, W)]
                        inp = S(rows)
                        keep = [list(p) for p in inp]
                        out = call('compatibility.' + key, [inp])
                        if not isinstance(out, (list, tuple)) or len(out) != 2:
                            why = 'does not return [points, weights]'
                        else:
                            why = eq_rows(out[0], S(X)) or eq_rows([out[1]], [[Sym(w) for w in W]])
                        if why is None and [list(p) for p in inp] != keep:
                            why = 'the input is modified'
                except Violation as v:
                    why = '%s %s' % (v.msg, v.where())
                except Unsupported as ex:
                    raise AnalysisError('%s: interpreter met an unsupported construct: %s' % (fi.key, ex))
                if why:
                    bad.append(('%d point(s) of dimension %d' % (n, dim), why))
        run.ob(rule, '%s :: %d cases' % (fi.key, cnt), not bad, 'exact coordinate map, own weight per point, fresh lists, input untouched, inverted by its partner' if not bad else
               '%s: %s   [%d of %d cases]' % (bad[0][0], bad[0][1], len(bad), cnt), 'geomdl/compatibility.py:%d in %s' % (fi.node.lineno, fi.key))


# ====================================================================================== C13: the 2-D flip and the surface flip
def fl3(m, run, rule='FL3.flips-on-labelled-nets'):
    """FL3: compatibility.flip_ctrlpts2d interpreted on labelled 2 x 3 and 3 x 2 grids, with the sizes given and detected: result[v][u] is
    input[u][v] for every (u, v), in fresh lists; operations.flip interpreted on real B-spline and rational surfaces (3 x 4, exact
    symbolic points, every view read beforehand so that its caches are warm), in place and on a copy: afterwards the stored
    homogeneous point k is the former point N - 1 - k, the sizes are unchanged, the ctrlpts / weights getters and the 2-D view report
    the reversed net, and without inplace the input is untouched"""
    from .skel import Sym
    from .poly import Poly
    f2 = m.func('compatibility.flip_ctrlpts2d')
    bad = []
    for su, sv in ((2, 3), (3, 2)):
        for with_sizes in (True, False):
            grid = [[[Tok('DEF', dep=frozenset([(u, v, c)])) for c in range(3)] for v in range(sv)] for u in range(su)]
            sk = SK(m, dict(STD_ABSTRACTED))
            try:
                out = sk.call(f2, [grid] + ([su, sv] if with_sizes else []), {})
                ok = isinstance(out, list) and len(out) == sv and all(isinstance(r, list) and len(r) == su for r in out)
                why = None if ok else 'the result is not a %d x %d grid' % (sv, su)
                for v in range(sv if ok else 0):
                    for u in range(su):
                        f = footprint(out[v][u]) if isinstance(out[v][u], (list, tuple)) else None
                        if not f or {x[:2] for x in f} != {(u, v)} or len(out[v][u]) != 3:
                            why = 'result[%d][%d] is %r, expected the point input[%d][%d]' % (v, u, out[v][u], u, v)
                            break
                        if out[v][u] is grid[u][v]:
                            why = 'result[%d][%d] is the very list of the input' % (v, u)
                            break
                    if why:
                        break
            except Violation as v_:
                why = '%s %s' % (v_.msg, v_.where())
            except Unsupported as ex:
                raise AnalysisError('%s: interpreter met an unsupported construct: %s' % (f2.key, ex))
            if why:
                bad.append(('%d x %d grid%s' % (su, sv, '' if with_sizes else ', sizes detected'), why))
    run.ob(rule, '%s :: 4 grids' % f2.key, not bad, 'result[v][u] = input[u][v], fresh lists' if not bad else '%s: %s' % bad[0], 'geomdl/compatibility.py:%d in %s' % (f2.node.lineno, f2.key))
    ff = m.func('operations.flip')
    su, sv, degs = 3, 4, (2, 1)
    total = su * sv
    for mod in ('BSpline', 'NURBS'):
        for inplace in (True, False):
            key = 'operations.flip :: %s.Surface, inplace=%s' % (mod, inplace)
            ab = dict(STD_ABSTRACTED)
            ab[('knotvector', 'normalize')] = Py(lambda sk, node, kv, *a, **k: [Ord(x.rank) for x in kv], 'knotvector.normalize')
            sk = SK(m, ab)
            sk.exact = True
            sk.construct = True
            sk.follow_deepcopy = True
            why = None

            def getp(obj, nm):
                return sk.call(m.lookup(obj._cls, nm, 'getters'), [obj], {})
            try:
                src = sk.apply(('class', (mod, 'Surface')), [], {}, None)
                for d, sfx in enumerate(('_u', '_v')):
                    sk.call(m.lookup(src._cls, 'degree' + sfx, 'setters'), [src, degs[d]], {})
                hd = 4 if mod == 'NURBS' else 3
                P = [[Poly.atom('P%d_%d' % (i, c)) for c in range(hd)] for i in range(total)]
                sk.call(m.lookup(src._cls, 'set_ctrlpts', 'methods'), [src, [[Sym(x) for x in r] for r in P], su, sv], {})
                for d, (sfx, p, n) in enumerate((('_u', degs[0], su), ('_v', degs[1], sv))):
                    sk.call(m.lookup(src._cls, 'knotvector' + sfx, 'setters'), [src, [Ord(10 * d + r) for r in [0] * (p + 1) + list(range(1, n - p)) + [n - p] * (p + 1)]], {})
                for nm in ('ctrlpts', 'ctrlpts2d') + (('weights', 'ctrlptsw') if mod == 'NURBS' else ()):
                    getp(src, nm)                                    # warm every cached view
                out = sk.call(ff, [src], {'inplace': inplace})
                res = src if inplace else out
                if inplace and out is not src:
                    why = 'inplace=True does not return the surface passed in'
                elif not inplace and (out is src or not isinstance(out, Bag)):
                    why = 'inplace=False returns the input itself'

                def views(o_, order, what):
                    if list(o_._a['_control_points_size']) != [su, sv]:
                        return '%s: sizes %r' % (what, o_._a['_control_points_size'])
                    st = o_._a['_control_points']
                    cp = getp(o_, 'ctrlpts')
                    g2 = getp(o_, 'ctrlpts2d')
                    ww = getp(o_, 'weights') if mod == 'NURBS' else None
                    for k in range(total):
                        src_k = order(k)
                        for c in range(hd):
                            s_ = _as_sym(st[k][c]) if len(st[k]) > c else None
                            if s_ is None or not s_.same(Sym(P[src_k][c])):
                                return '%s: stored point %d slot %d is %r, expected the former point %d (%r)' % (what, k, c, st[k][c] if len(st[k]) > c else None, src_k, P[src_k][c])
                        g_ = g2[k // sv][k % sv]
                        if g_ is not st[k] and [repr(x) for x in g_] != [repr(x) for x in st[k]]:
                            return '%s: the 2-D view at [%d][%d] is %r, the stored point there is %r (a stale view)' % (what, k // sv, k % sv, g_, st[k])
                        for c in range(3):
                            want = Sym(P[src_k][c], P[src_k][3]) if mod == 'NURBS' else Sym(P[src_k][c])
                            s_ = _as_sym(cp[k][c])
                            if s_ is None or not s_.same(want):
                                return '%s: the ctrlpts getter reports %r for point %d coordinate %d, expected %r (a stale view)' % (what, cp[k][c], k, c, want)
                        if ww is not None:
                            s_ = _as_sym(ww[k])
                            if s_ is None or not s_.same(Sym(P[src_k][3])):
                                return '%s: the weights getter reports %r for point %d, expected %r (a stale view)' % (what, ww[k], k, P[src_k][3])
                    return None
                if why is None:
                    why = views(res, lambda k: total - 1 - k, 'the flipped surface')
                if why is None and not inplace:
                    why = views(src, lambda k: k, 'the input after inplace=False')
            except Violation as v_:
                why = '%s %s' % (v_.msg, v_.where())
            except Unsupported as ex:
                raise AnalysisError('%s: interpreter met an unsupported construct: %s' % (key, ex))
            run.ob(rule, key, why is None, 'stored points reversed, every view follows%s' % ('' if inplace else ', input untouched') if why is None else why, 'geomdl/operations.py:%d in %s' % (ff.node.lineno, ff.key))


# ====================================================================================== C03 / C17: knot vector normalisation, exactly
def nm2(m, run, rule='NM2.normalisation-is-the-affine-map-onto-the-unit-interval'):
    """NM2: knotvector.normalize interpreted with exact arithmetic (text mode: the rounding through a formatted string is carried out) on
    knot vectors whose normalised knots are exactly representable - ranges [0, 1], [2, 3], [-1, 0] (unit length, shifted), [1, 5],
    [-2, 2], [0, 4], [0.5, 2.5], [0, 64] and [0, 1] with knots at 1/32 and 1/1024 (ten decimals), with repeated interior knots: knot k
    becomes (k - first) / (last - first), in a new list, the input left as it was.  The same through every public name that stands for it:
    module-level aliases (utilities.normalize_knot_vector) and functions that return its result for their own first argument"""
    from fractions import Fraction as F
    import ast
    fi = m.func('knotvector.normalize')
    entries = [('knotvector', 'normalize')]
    for (mod_, name_), val in sorted(m.modassign.items()):
        if any(isinstance(x, (ast.Name, ast.Attribute)) and m.resolve_callable(mod_, x) is fi for x in ast.walk(val)) and (mod_, name_) not in entries:
            entries.append((mod_, name_))
    for g in m.funcs.values():
        if g.kind == 'function' and g is not fi and g.node.args.args and (g.mod, g.name) not in entries:
            for r in ast.walk(g.node):
                if isinstance(r, ast.Return) and isinstance(r.value, ast.Call) and m.resolve_callable(g.mod, r.value.func) is fi and r.value.args \
                        and isinstance(r.value.args[0], ast.Name) and r.value.args[0].id == g.node.args.args[0].arg:
                    entries.append((g.mod, g.name))
                    break
    vecs = [[0, 0, 0, F(1, 4), F(1, 2), F(1, 2), 1, 1, 1], [2, 2, F(5, 2), 3, 3], [-1, -1, -1, F(-3, 4), F(-1, 4), 0, 0, 0], [1, 1, 2, 3, 3, 5, 5],
            [-2, -2, -2, 0, 1, 2, 2, 2], [0, 0, 1, 2, 3, 4, 4], [F(1, 2), F(1, 2), 1, F(3, 2), F(5, 2), F(5, 2)], [3, 3, 3, 4, 4, 4],
            [0, 0, 2, 32, 64, 64], [0, 0, F(1, 1024), F(1, 32), F(1, 2), 1, 1]]
    bad = []
    for ent, kv in [(e_, v_) for e_ in entries for v_ in vecs]:
        inp = [float(x) for x in kv]
        keep = list(inp)
        sk = SK(m, {})
        sk.exact = True
        sk.text = True
        why = None
        try:
            out = sk.apply(sk.lookup_global(ent[0], ent[1]), [inp], {}, None)
            want = [(F(x) - F(kv[0])) / (F(kv[-1]) - F(kv[0])) for x in kv]
            if not isinstance(out, list) or len(out) != len(kv):
                why = 'returns %r' % (out,)
            elif out is inp:
                why = 'returns the input list itself'
            elif inp != keep:
                why = 'the input is modified'
            else:
                for i, (g_, w_) in enumerate(zip(out, want)):
                    if isinstance(g_, Tok) or F(g_) != w_:
                        why = 'knot %d becomes %s, (k - first) / (last - first) is %s' % (i, g_, w_)
                        break
        except Violation as v:
            why = '%s %s' % (v.msg, v.where())
        except Unsupported as ex:
            raise AnalysisError('%s.%s: interpreter met an unsupported construct: %s' % (ent[0], ent[1], ex))
        if why:
            bad.append(('%s.%s, knots %s' % (ent[0], ent[1], [str(x) for x in kv]), why))
    run.ob(rule, '%s :: %d knot vectors' % (fi.key, len(vecs)), not bad, 'k -> (k - first) / (last - first), new list (through %s)' % ', '.join('%s.%s' % e_ for e_ in entries) if not bad else '%s: %s   [%d of %d]' % (bad[0][0], bad[0][1], len(bad), len(vecs) * len(entries)),
           'geomdl/knotvector.py:%d in %s' % (fi.node.lineno, fi.key))


# ====================================================================================== C15: Surface.tessellate against a recording tessellation component
def tv3(m, run, rule='TV3.tessellate-feeds-the-component-and-re-evaluates'):
    """TV3: abstract.Surface.tessellate interpreted on an abstract surface whose tessellation component, evaluated points, sample sizes
    and evaluate_single are recorders: a first call hands the component the evaluated points with size_u / size_v = the surface's own
    sample sizes of u / v (different from each other) and its trims, forwards any other keyword, and drops size_u / size_v / trims given by
    the caller; afterwards every vertex whose (u, v) lies in the unit square carries evaluate_single of its own (u, v); a second call
    does nothing while the component reports a tessellation, and tessellates and re-evaluates again with force=True"""
    fi = m.lookup(('BSpline', 'Surface'), 'tessellate', 'methods')
    if fi is None:
        raise AnalysisError('Surface.tessellate not found')
    for ntrims in (1, 0):
        why = _tv3_case(m, fi, ntrims)
        run.ob(rule, '%s :: surface with %s' % (fi.key, 'a trim' if ntrims else 'no trims'), why is None,
               'evaluated points, own sample sizes per direction and trims go to the component; every vertex is re-evaluated at its own (u, v); cached unless forced' if why is None else why,
               'geomdl/abstract.py:%d in %s' % (fi.node.lineno, fi.key))


def tessellate_keywords(m):
    """the keyword names abstract.Surface.tessellate hands to its tessellation component when the caller passes none (from the recorded call)"""
    fi = m.lookup(('BSpline', 'Surface'), 'tessellate', 'methods')
    rec = []
    _tv3_case(m, fi, 1, rec, extra=False)
    return set(rec[0][1]) if rec else None


def _tv3_case(m, fi, ntrims, calls=None, extra=True):
    calls = [] if calls is None else calls
    state = {'done': False}

    def L(*lab):
        return Tok('DEF', dep=frozenset([lab]))
    uvs = [(0.0, 0.0), (0.25, 1.0), (1.0, 0.5), (0.5, 0.5)]

    def make():
        verts = []

        def tess(sk, node, points, **kw):
            calls.append((points, dict(kw)))
            state['done'] = True
            del verts[:]
            for k, uv in enumerate(uvs):
                verts.append(Bag('Vertex', id=k, uv=list(uv), data=[L('grid', len(calls), k, c) for c in range(3)]))
        tsl = Bag('tessellator', tessellate=Py(tess, 'tessellate'), is_tessellated=Py(lambda sk, node: state['done'], 'is_tessellated'),
                  reset=Py(lambda sk, node: state.__setitem__('done', False), 'reset'))
        tsl._a['vertices'] = verts
        tsl._a['faces'] = []
        evalpts = [[L('ev', k, c) for c in range(3)] for k in range(12)]
        trims = [Bag('rec:trim', name='t') for _ in range(ntrims)]
        surf = Bag(('BSpline', 'Surface'), _tsl_component=tsl, _eval_points=evalpts, _kv_normalize=True, _trims=trims, _delta=[0.5, 0.25], _pdim=2, _rational=False,
                   _degree=[1, 1], _control_points_size=[2, 2], _control_points=pts(4, 3), _knot_vector=[[0.0, 0.0, 1.0, 1.0], [0.0, 0.0, 1.0, 1.0]], _dimension=3,
                   _cache={}, _bounding_box=[], _control_points2D=[], _precision=18, _evaluator=None)
        surf._a['evaluate_single'] = Py(lambda sk, node, uv: [L('S', float(uv[0]), float(uv[1]), c) for c in range(3)], 'evaluate_single')
        return surf, tsl, evalpts, trims, verts
    why = None
    try:
        surf, tsl, evalpts, trims, verts = make()
        sk = SK(m, dict(STD_ABSTRACTED))
        su = sk.call(m.lookup(surf._cls, 'sample_size_u', 'getters'), [surf], {})
        sv = sk.call(m.lookup(surf._cls, 'sample_size_v', 'getters'), [surf], {})
        if su == sv:
            raise AnalysisError('TV3: the stand-in surface has equal sample sizes; the driver needs different ones')
        sk.call(fi, [surf], {'size_u': 99, 'trims': 'mine', 'vertex_spacing': 2} if extra else {})
        if not extra:
            return None
        if len(calls) != 1:
            why = 'the component is asked to tessellate %d times by the first call' % len(calls)
        else:
            p_, kw_ = calls[0]
            if p_ is not evalpts and [id(x) for x in p_] != [id(x) for x in evalpts]:
                why = 'the component is not given the evaluated points of the surface'
            elif kw_.get('size_u') != su or kw_.get('size_v') != sv:
                why = 'the component is given size_u = %r, size_v = %r; the sample sizes of the surface are (%r, %r)' % (kw_.get('size_u'), kw_.get('size_v'), su, sv)
            elif not isinstance(kw_.get('trims'), (list, tuple)) or [id(x) for x in kw_['trims']] != [id(x) for x in trims]:
                why = 'the component is not given the trims of the surface (got %r)' % (kw_.get('trims'),)
            elif kw_.get('vertex_spacing') != 2:
                why = 'other keywords of the caller are not forwarded to the component (vertex_spacing: %r)' % (kw_.get('vertex_spacing'),)

        def evaluated(n_call):
            for k, v in enumerate(verts):
                want = [('S', float(uvs[k][0]), float(uvs[k][1]), c) for c in range(3)]
                got = [sorted(x.dep)[0] if isinstance(x, Tok) and x.dep and len(x.dep) == 1 else None for x in v._a['data']]
                if got != want:
                    return 'after %s, vertex %d with (u, v) = %s carries %s, not the surface point at its own parameters' % (n_call, k, uvs[k], 'the grid point the component gave it' if got and got[0] and got[0][0] == 'grid' else got)
            return None
        if why is None:
            why = evaluated('the first call')
        if why is None:
            sk.call(fi, [surf], {})
            if len(calls) != 1:
                why = 'a second call tessellates again although the component reports a tessellation'
        if why is None:
            sk.call(fi, [surf], {'force': True})
            if len(calls) != 2:
                why = 'force=True does not tessellate again'
            else:
                why = evaluated('the forced call')
    except Violation as v:
        why = '%s %s' % (v.msg, v.where())
    except Unsupported as ex:
        raise AnalysisError('%s: interpreter met an unsupported construct: %s' % (fi.key, ex))
    return why


# ====================================================================================== C16 / C08 / C02: the binomial coefficient on integers
def bn2(m, run, rule='BN2.binomial-coefficient-on-integers'):
    """BN2: linalg.binomial_coefficient interpreted with exact arithmetic (integers and rationals; math.factorial is the integer function)
    for 0 <= k <= 14 and 0 <= i <= k + 2: the result is C(k, i), 0 above the diagonal.  (Exact arithmetic cannot see a result that is
    rounded wrongly through floating-point quotients: FD1 / FD2 look for floored factors and truncated float quotients.)"""
    import math
    from fractions import Fraction
    fi = m.func('linalg.binomial_coefficient')
    bad, cnt = [], 0
    for k in range(0, 15):
        for i in range(0, k + 3):
            cnt += 1
            sk = SK(m, {})
            sk.exact = True
            try:
                out = sk.call(fi, [k, i], {})
                want = math.comb(k, i) if i <= k else 0
                if isinstance(out, Tok) or Fraction(out) != want:
                    bad.append(('C(%d, %d)' % (k, i), 'returns %r, the binomial coefficient is %d' % (out, want)))
            except Violation as v:
                bad.append(('C(%d, %d)' % (k, i), '%s %s' % (v.msg, v.where())))
            except Unsupported as ex:
                raise AnalysisError('%s: interpreter met an unsupported construct: %s' % (fi.key, ex))
    run.ob(rule, '%s :: %d (k, i) pairs' % (fi.key, cnt), not bad, 'k! / (i! (k - i)!) for i <= k, 0 above' if not bad else '%s: %s   [%d of %d]' % (bad[0][0], bad[0][1], len(bad), cnt),
           'geomdl/linalg.py:%d in %s' % (fi.node.lineno, fi.key))


# ====================================================================================== C13: surfaces extracted from a volume
def ex4(m, run, rule='EX4.surfaces-extracted-from-a-volume'):
    """EX4: construct.extract_surfaces / extract_isosurface interpreted on a volume stand-in with index-labelled control points (sizes 2 x 3 x
    4, degrees 1, 2, 3, one knot vector of order tokens per direction; B-spline and rational), the surfaces built by the real classes'
    constructors and setters: the 'uv' family has one surface per w holding the points (u, v, w) at [u][v] with the u / v degrees and knot
    vectors, 'uw' one per v with (u, v, w) at [u][w] and the u / w data, 'vw' one per u with (u, v, w) at [v][w] and the v / w data; the
    iso-surface tuple is the first and last member of each family"""
    sizes, degs = (2, 3, 4), (1, 2, 3)
    su, sv, sw = sizes
    fams = {'uv': (0, 1, 2), 'uw': (0, 2, 1), 'vw': (1, 2, 0)}
    for rational in (False, True):
        hd = 4 if rational else 3
        kvs = [[Ord(100 * d + r) for r in [0] * (degs[d] + 1) + list(range(1, sizes[d] - degs[d])) + [sizes[d] - degs[d]] * (degs[d] + 1)] for d in range(3)]
        cp = [None] * (su * sv * sw)
        for u in range(su):
            for v in range(sv):
                for w in range(sw):
                    cp[v + sv * (u + su * w)] = [Tok('DEF', dep=frozenset([(u, v, w, c)])) for c in range(hd)]
        data = dict(rational=rational, degree=tuple(degs), knotvector=tuple(kvs), size=tuple(sizes), control_points=tuple(cp), dimension=3, pdimension=3, type='spline')
        vol = Bag(('NURBS' if rational else 'BSpline', 'Volume'), data=data, _pdim=3, __len__=1, _rational=rational)
        key = 'construct.extract_surfaces :: %s volume' % ('rational' if rational else 'B-spline')
        ab = dict(STD_ABSTRACTED)
        ab[('knotvector', 'normalize')] = Py(lambda sk, node, kv, *a, **k: [Ord(x.rank) for x in kv], 'knotvector.normalize')
        sk = SK(m, ab)
        sk.construct = True
        why = None
        try:
            out = sk.call(m.func('construct.extract_surfaces'), [vol], {})
            if not isinstance(out, dict) or set(out) != set(fams):
                why = 'the result is not a dictionary with the families uv, uw, vw'
            for fam, (a, b, c) in sorted(fams.items()):
                if why:
                    break
                lst = out[fam]
                if not isinstance(lst, list) or len(lst) != sizes[c]:
                    why = "family '%s' has %r surfaces; one per %s index (%d) is expected" % (fam, len(lst) if isinstance(lst, list) else lst, 'uvw'[c], sizes[c])
                    break
                for k, s_ in enumerate(lst):
                    at = s_._a if isinstance(s_, Bag) else {}
                    if not isinstance(s_, Bag) or not isinstance(s_._cls, tuple) or s_._cls[1] != 'Surface' or (s_._cls[0] == 'NURBS') != rational:
                        why = "family '%s' member %d is not a %s surface" % (fam, k, 'rational' if rational else 'B-spline')
                    elif list(at.get('_degree', [])) != [degs[a], degs[b]] or list(at.get('_control_points_size', [])) != [sizes[a], sizes[b]]:
                        why = "family '%s' member %d has degrees %s and sizes %s; the %s and %s data of the volume are %s and %s" % (
                            fam, k, list(at.get('_degree', [])), list(at.get('_control_points_size', [])), 'uvw'[a], 'uvw'[b], [degs[a], degs[b]], [sizes[a], sizes[b]])
                    elif [[getattr(x, 'rank', None) for x in kv] for kv in at.get('_knot_vector', [])] != [[x.rank for x in kvs[a]], [x.rank for x in kvs[b]]]:
                        why = "family '%s' member %d does not get the %s and %s knot vectors of the volume, in this order" % (fam, k, 'uvw'[a], 'uvw'[b])
                    else:
                        st = at.get('_control_points', [])
                        for i in range(sizes[a]):
                            for j in range(sizes[b]):
                                idx = [None, None, None]
                                idx[a], idx[b], idx[c] = i, j, k
                                pt = st[j + sizes[b] * i] if len(st) == sizes[a] * sizes[b] else None
                                f = footprint(pt) if isinstance(pt, (list, tuple)) else None
                                if not f or {x[:3] for x in f} != {tuple(idx)}:
                                    why = "family '%s' member %d: the control point at [%d][%d] is %s; it is the volume point (u, v, w) = %s" % (
                                        fam, k, i, j, sorted({x[:3] for x in f}) if f else pt, tuple(idx))
                                    break
                            if why:
                                break
                    if why:
                        break
            if why is None:
                iso = sk.call(m.func('construct.extract_isosurface'), [vol], {})
                if not isinstance(iso, tuple) or len(iso) != 6:
                    why = 'extract_isosurface does not return six surfaces'
                else:
                    def ident(s_, fam):
                        a, b, c = fams[fam]
                        f = footprint(s_._a['_control_points'][0])
                        return next(iter(f))[c] if f else None
                    got = [ident(iso[0], 'uv'), ident(iso[1], 'uv'), ident(iso[2], 'uw'), ident(iso[3], 'uw'), ident(iso[4], 'vw'), ident(iso[5], 'vw')]
                    if got != [0, sw - 1, 0, sv - 1, 0, su - 1]:
                        why = 'the iso-surfaces are the members %s of uv, uw, vw; the boundary ones are the first and the last of each family' % got
        except Violation as v:
            why = '%s %s' % (v.msg, v.where())
        except Unsupported as ex:
            raise AnalysisError('%s: interpreter met an unsupported construct: %s' % (key, ex))
        fi = m.func('construct.extract_surfaces')
        run.ob(rule, key, why is None, 'three families with the right points, degrees and knot vectors; the iso-surface tuple is their first and last members' if why is None else why,
               'geomdl/construct.py:%d in %s' % (fi.node.lineno, fi.key))


# ====================================================================================== C20: the voxel grid tiles the bounding box
def vx2(m, run, rule='VX2.voxel-grid-tiles-the-box'):
    """VX2: _voxelize.generate_voxel_grid interpreted with exact rational arithmetic (linalg.frange interpreted too) on boxes with three
    different extents and three different sizes, cuboids and cubes: the voxels are listed with u outermost and w innermost, the first
    origin is the minimum corner of the box, every voxel is [origin, origin + steps] with one step vector for the whole grid, consecutive
    origins along an axis are exactly one step of that axis apart (no gaps, no overlaps), and the voxels reach the maximum corner"""
    from fractions import Fraction as F
    fi = m.func('_voxelize.generate_voxel_grid')
    bad, cnt = [], 0
    # (the last box is flat: a planar surface has a bounding box without thickness along one axis - one layer of voxels of height 0)
    for bbox, sz in ((((0, 0, 0), (2, 3, 6)), (3, 4, 4)), (((-1, 2, 0), (1, 3, 4)), (5, 2, 3)), (((0, 0, 0), (1, 1, 1)), (2, 3, 5)), (((0, 0, 0), (2, 3, 0)), (3, 4, 2))):
        for cubes in ((False, True) if bbox[1][2] != bbox[0][2] else (False,)):
            cnt += 1
            sk = SK(m, {})
            sk.exact = True
            why = None
            try:
                out = sk.call(fi, [[list(map(F, bbox[0])), list(map(F, bbox[1]))], list(sz)], {'use_cubes': cubes})
                out = list(out) if not isinstance(out, list) else out
                vox = [[[F(c) for c in corner] for corner in v_] for v_ in out]
                if not vox:
                    why = 'no voxels are generated: the grid does not cover the box'
                elif any(len(v_) != 2 or len(v_[0]) != 3 or len(v_[1]) != 3 for v_ in vox):
                    why = 'the result is not a list of [minimum corner, maximum corner] pairs'
                else:
                    steps = [vox[0][1][a] - vox[0][0][a] for a in range(3)]
                    want_steps = [F(bbox[1][a] - bbox[0][a], sz[a] - 1) for a in range(3)]
                    if cubes:
                        want_steps = [min(want_steps)] * 3
                    axes = [sorted({v_[0][a] for v_ in vox}) for a in range(3)]
                    if steps != want_steps:
                        why = 'the voxels have the edge lengths %s, expected %s' % ([str(x) for x in steps], [str(x) for x in want_steps])
                    elif any(v_[1][a] - v_[0][a] != steps[a] for v_ in vox for a in range(3)):
                        why = 'the voxels do not all have the same edge lengths'
                    elif [axes[a][0] for a in range(3)] != [F(x) for x in bbox[0]]:
                        why = 'the first voxel origins are %s, the minimum corner of the box is %s' % ([str(axes[a][0]) for a in range(3)], list(bbox[0]))
                    else:
                        for a in range(3):
                            gaps = {y - x for x, y in zip(axes[a], axes[a][1:])}
                            # (frange closes the range with the end value itself: the last origin may be closer than one step)
                            inner = {y - x for x, y in zip(axes[a][:-1], axes[a][1:-1])} if len(axes[a]) > 2 else set()
                            if inner - {steps[a]} or any(g > steps[a] for g in gaps):
                                why = 'along %s the voxel origins are %s apart but the voxels are %s long: the grid has gaps or overlaps' % ('uvw'[a], sorted(str(g) for g in gaps), steps[a])
                                break
                            if axes[a][-1] + steps[a] < F(bbox[1][a]):
                                why = 'along %s the voxels end at %s, the box at %s' % ('uvw'[a], axes[a][-1] + steps[a], bbox[1][a])
                                break
                        if why is None:
                            want_order = [[u, v, w] for u in axes[0] for v in axes[1] for w in axes[2]]
                            if [v_[0] for v_ in vox] != want_order:
                                why = 'the voxels are not listed with u outermost and w innermost (every combination of the per-axis origins once)'
            except Violation as v:
                why = '%s %s' % (v.msg, v.where())
            except Unsupported as ex:
                raise AnalysisError('%s: interpreter met an unsupported construct: %s' % (fi.key, ex))
            if why:
                bad.append(('box %s, sizes %s%s' % (bbox, sz, ', cubes' if cubes else ''), why))
    run.ob(rule, '%s :: %d (box, sizes, cubes) cases' % (fi.key, cnt), not bad, 'one step vector sizes the voxels and spaces their origins; the grid starts at the minimum corner and reaches the maximum corner; u-major order' if not bad else
           '%s: %s   [%d of %d]' % (bad[0][0], bad[0][1], len(bad), cnt), 'geomdl/_voxelize.py:%d in %s' % (fi.node.lineno, fi.key))


# ====================================================================================== C18 / C01: which parameters count as inside the unit domain
def cp2(m, run, rule='CP2.unit-domain-test-is-exact'):
    """CP2: utilities.check_params interpreted with exact rational arithmetic on parameter tuples of length 1, 2 and 3: it accepts exactly
    the tuples whose every entry lies in the closed interval [0, 1] - 0, 1 and interior values are accepted in every position, and a
    value 10^-12 outside either end, in any one position, is rejected (an evaluation a hair outside the domain leaves the hull of the
    active control points)"""
    from fractions import Fraction as F
    import itertools
    fi = m.func('utilities.check_params')
    eps = F(1, 10 ** 12)
    inside = [F(0), F(1, 2), F(1)]
    outside = [-eps, 1 + eps, F(-1), F(2)]
    bad, cnt = [], 0
    for n in (1, 2, 3):
        cases = [(list(t), True) for t in itertools.product(inside, repeat=n)]
        for pos in range(n):
            for o_ in outside:
                t = [F(1, 2)] * n
                t[pos] = o_
                cases.append((t, False))
        for t, want in cases:
            cnt += 1
            sk = SK(m, {})
            sk.exact = True
            try:
                out = sk.call(fi, [list(t)], {})
                if bool(out) is not want:
                    bad.append((tuple(str(x) for x in t), 'returns %r; the tuple is %s the unit domain' % (out, 'inside' if want else 'outside')))
            except Violation as v:
                bad.append((tuple(str(x) for x in t), '%s %s' % (v.msg, v.where())))
            except Unsupported as ex:
                raise AnalysisError('%s: interpreter met an unsupported construct: %s' % (fi.key, ex))
    run.ob(rule, '%s :: %d parameter tuples' % (fi.key, cnt), not bad, 'accepts exactly the tuples inside [0, 1] in every position' if not bad else 'parameters %s: %s   [%d of %d]' % (bad[0][0], bad[0][1], len(bad), cnt),
           'geomdl/utilities.py:%d in %s' % (fi.node.lineno, fi.key))


# ====================================================================================== C16: the pivoting solvers on every small 0/1 matrix
def la4(m, run, rule='LA4.pivoting-solvers-on-all-small-01-matrices'):
    """LA4: linalg.matrix_determinant, matrix_inverse and lu_factor interpreted with exact rational arithmetic on *every* non-singular
    matrix with entries 0 / 1 of size 1, 2 and 3 (and on the 2 x 2 matrices over {-1, 0, 1, 2}): whenever a routine returns a result, the
    determinant is the Leibniz determinant, the inverse satisfies A A^-1 = I, and lu_factor's x satisfies A x = b (b: the unit
    vectors) - and matrix_pivot has been called on the way (whatever helper the call has been moved into).  Symbolic matrices (LA3) are generic - no minor vanishes by coincidence; integer matrices are where a leading
    minor of the row-permuted matrix is zero although the matrix is regular, i.e. where the choice of the row exchanges matters"""
    import itertools
    from fractions import Fraction as F

    def det(a):
        n = len(a)
        if n == 1:
            return a[0][0]
        return sum((-1) ** j * a[0][j] * det([r[:j] + r[j + 1:] for r in a[1:]]) for j in range(n))
    mats = []
    for n in (1, 2, 3):
        for ent in itertools.product((0, 1), repeat=n * n):
            mats.append([[F(ent[i * n + j]) for j in range(n)] for i in range(n)])
    for ent in itertools.product((-1, 0, 1, 2), repeat=4):
        mats.append([[F(ent[0]), F(ent[1])], [F(ent[2]), F(ent[3])]])
    mats = [a for a in mats if det(a) != 0]
    res = {'matrix_determinant': [], 'matrix_inverse': [], 'lu_factor': []}
    raised = dict.fromkeys(res, 0)
    for a in mats:
        n = len(a)
        d = det(a)
        for name in res:
            fi = m.func('linalg.' + name)
            piv_calls = []
            real_piv = m.func('linalg.matrix_pivot')
            sk = SK(m, {('linalg', 'matrix_pivot'): Py(lambda sk_, node, *a_, _c=piv_calls, **k_: _c.append(1) or sk_.call(real_piv, list(a_), k_), 'matrix_pivot')})
            sk.exact = True
            try:
                if name == 'matrix_determinant':
                    out = sk.call(fi, [[list(r) for r in a]], {})
                    if isinstance(out, Tok) or F(out) != d:
                        res[name].append((a, 'returns %s, the determinant is %s' % (out, d)))
                elif name == 'matrix_inverse':
                    out = sk.call(fi, [[list(r) for r in a]], {})
                    prod = [[sum(a[i][k] * F(out[k][j]) for k in range(n)) for j in range(n)] for i in range(n)]
                    if prod != [[F(int(i == j)) for j in range(n)] for i in range(n)]:
                        res[name].append((a, 'A times the returned matrix is %s, not the identity' % [[str(x) for x in r] for r in prod]))
                else:
                    b = [[F(int(i == j)) for j in range(n)] for i in range(n)]
                    out = sk.call(fi, [[list(r) for r in a], [list(r) for r in b]], {})
                    prod = [[sum(a[i][k] * F(out[k][j]) for k in range(n)) for j in range(n)] for i in range(n)]
                    if prod != b:
                        res[name].append((a, 'A x is %s for the unit right-hand sides, not b' % [[str(x) for x in r] for r in prod]))
                if not piv_calls and not any(a is x[0] for x in res[name]):
                    res[name].append((a, 'a result is returned without the rows having been exchanged through matrix_pivot: exact arithmetic does not care, floating point divides by '
                                         'whatever small pivot it meets (these routines are specified with partial pivoting)'))
            except Violation as v:
                if isinstance(v, Raised) or v.rule == 'RAISE':
                    raised[name] += 1            # no result is returned: outside what the property states (counted and reported in the evidence)
                else:
                    res[name].append((a, '%s %s' % (v.msg, v.where())))
            except Unsupported as ex:
                raise AnalysisError('linalg.%s: interpreter met an unsupported construct: %s' % (name, ex))
    for name in ('matrix_determinant', 'matrix_inverse', 'lu_factor'):
        bad = res[name]
        fi = m.func('linalg.' + name)
        run.ob(rule, 'linalg.%s :: %d non-singular matrices' % (name, len(mats)), not bad,
               'every returned result satisfies its defining equation (%d of the matrices raise instead of returning)' % raised[name] if not bad else
               'A = %s: %s   [%d of %d matrices; %d more raise instead of returning]' % ([[str(x) for x in r] for r in bad[0][0]], bad[0][1], len(bad), len(mats), raised[name]),
               'geomdl/linalg.py:%d in %s' % (fi.node.lineno, fi.key))


# ====================================================================================== C03: generated knot vectors
def kg2(m, run, rule='KG2.generated-knot-vectors-are-valid'):
    """KG2: knotvector.generate interpreted with exact arithmetic (linspace interpreted too) for degrees 1 .. 4, degree + 1 .. degree + 7
    control points, clamped and unclamped: the vector has num_ctrlpts + degree + 1 knots, is non-decreasing, runs from 0 to 1, a clamped
    one starts and ends with exactly degree + 1 equal knots and is strictly increasing in between, an unclamped one is strictly
    increasing throughout; knotvector.check (interpreted) accepts it.  The same holds through every module-level name of the package bound to
    an expression over knotvector.generate (utilities.generate_knot_vector, ...), and two calls with equal arguments return two different
    lists: a generated vector belongs to its caller, editing it does not change what the next call returns"""
    import ast
    from fractions import Fraction as F
    fg, fc = m.func('knotvector.generate'), m.func('knotvector.check')
    bad, cnt = [], 0
    # the public names: the function itself and every module-level NAME = <expression mentioning it>
    entries = [('knotvector', 'generate')]
    for (mod_, name_), val in sorted(m.modassign.items()):
        for x in ast.walk(val):
            if isinstance(x, (ast.Name, ast.Attribute)) and m.resolve_callable(mod_, x) is fg and (mod_, name_) not in entries:
                entries.append((mod_, name_))
    cases = [(ent, p, n, clamped) for ent in entries for p in (range(1, 5) if ent == entries[0] else (2, 3)) for n in range(p + 1, p + 8) for clamped in (True, False)]
    for ent, p, n, clamped in cases:
        cnt += 1
        sk = SK(m, {})
        sk.exact = True
        sk.text = True            # (linspace rounds through a formatted string)
        why = None
        try:
            gen = sk.lookup_global(ent[0], ent[1])
            kv = kv_first = sk.apply(gen, [p, n], {'clamped': clamped}, None)
            num = lambda x: x.val if isinstance(x, Tok) and x.kind == 'PH0' and x.val is not None else x          # (a literal fill is its number)
            kv = [num(x) for x in kv] if isinstance(kv, list) else kv
            vals = [F(x) for x in kv] if isinstance(kv, list) and not any(isinstance(x, Tok) for x in kv) else None
            if vals is None:
                why = 'returns %r' % (kv,)
            elif len(vals) != n + p + 1:
                why = 'returns %d knots, m = n + p + 1 needs %d' % (len(vals), n + p + 1)
            elif vals[0] != 0 or vals[-1] != 1:
                why = 'runs from %s to %s, not from 0 to 1' % (vals[0], vals[-1])
            elif any(a > b for a, b in zip(vals, vals[1:])):
                why = 'is not non-decreasing'
            elif clamped and (vals[:p + 1] != [0] * (p + 1) or vals[-(p + 1):] != [1] * (p + 1) or any(a >= b for a, b in zip(vals[p:-p], vals[p + 1:len(vals) - p]))):
                why = 'is not clamped: %s' % [str(x) for x in vals]
            elif not clamped and any(a >= b for a, b in zip(vals, vals[1:])):
                why = 'an unclamped vector has repeated knots: %s' % [str(x) for x in vals]
            elif sk.call(fc, [p, list(kv), n], {}) is not True:
                why = 'knotvector.check rejects it'
            elif sk.apply(gen, [p, n], {'clamped': clamped}, None) is kv_first:
                why = ('two calls with equal arguments return one and the same list: an edit of the first result (a knot inserted, a rescaling in place) '
                       'is what the second caller gets')
        except Violation as v:
            why = '%s %s' % (v.msg, v.where())
        except Unsupported as ex:
            raise AnalysisError('%s.%s: interpreter met an unsupported construct: %s' % (ent[0], ent[1], ex))
        if why:
            bad.append(('%s.%s, degree %d, %d control points, clamped=%s' % (ent[0], ent[1], p, n, clamped), why))
    run.ob(rule, '%s :: %d (name, degree, count, clamped) cases' % (fg.key, cnt), not bad, 'n + p + 1 knots on [0, 1], clamped ends of multiplicity p + 1, accepted by check, a new list per call (through %s)'
           % ', '.join('%s.%s' % e for e in entries) if not bad else '%s: %s   [%d of %d]' % (bad[0][0], bad[0][1], len(bad), cnt), 'geomdl/knotvector.py:%d in %s' % (fg.node.lineno, fg.key))


# ====================================================================================== C16: the vector / matrix helpers on symbolic operands
def vh2(m, run, rule='VH2.vector-helpers-equal-their-definitions'):
    """VH2: the vector and matrix helpers of linalg interpreted on symbolic operands (exact): vector_cross is the cross product (2-D operands
    padded with z = 0), vector_dot the sum of products, vector_multiply v s, vector_sum v1 + c v2, point_translate p + v, vector_generate
    end - start, matrix_transpose rows <-> columns, matrix_multiply the row-by-column sums (non-square shapes, matrix x matrix),
    matrix_scalar m s, vector_mean the coordinate-wise mean; the inputs are left as they were and the results are new lists"""
    from .skel import Sym
    from .poly import Poly

    def A(name, n):
        return [Poly.atom('%s%d' % (name, i)) for i in range(n)]

    def M(name, r, c):
        return [[Poly.atom('%s%d_%d' % (name, i, j)) for j in range(c)] for i in range(r)]

    def S(x):
        return [S(y) for y in x] if isinstance(x, list) else Sym(x)

    def same(got, want):
        if isinstance(want, list):
            return isinstance(got, (list, tuple)) and len(got) == len(want) and all(same(g, w) for g, w in zip(got, want))
        s = _as_sym(got)
        return s is not None and s.same(Sym(want))
    a3, b3, a2, b2 = A('a', 3), A('b', 3), A('a', 2), A('b', 2)
    s_, c_ = Poly.atom('s'), Poly.atom('c')
    m23, m34 = M('m', 2, 3), M('n', 3, 4)
    zero = Poly()
    cases = [
        ('vector_cross', [S(a3), S(b3)], {}, [a3[1] * b3[2] - a3[2] * b3[1], a3[2] * b3[0] - a3[0] * b3[2], a3[0] * b3[1] - a3[1] * b3[0]], 'a x b'),
        ('vector_cross', [S(a2), S(b2)], {}, [zero, zero, a2[0] * b2[1] - a2[1] * b2[0]], 'a x b for planar vectors'),
        ('vector_cross', [S(a3), S(b2)], {}, [-(a3[2] * b2[1]), a3[2] * b2[0], a3[0] * b2[1] - a3[1] * b2[0]], 'a x b, second operand planar'),
        ('vector_dot', [S(a3), S(b3)], {}, a3[0] * b3[0] + a3[1] * b3[1] + a3[2] * b3[2], 'a . b'),
        ('vector_multiply', [S(a3), Sym(s_)], {}, [x * s_ for x in a3], 'v s'),
        ('vector_sum', [S(a3), S(b3), Sym(c_)], {}, [x + c_ * y for x, y in zip(a3, b3)], 'v1 + c v2'),
        ('point_translate', [S(a3), S(b3)], {}, [x + y for x, y in zip(a3, b3)], 'p + v'),
        ('vector_generate', [S(a3), S(b3)], {}, [y - x for x, y in zip(a3, b3)], 'end - start'),
        ('matrix_transpose', [S(m23)], {}, [[m23[i][j] for i in range(2)] for j in range(3)], 'rows <-> columns'),
        ('matrix_multiply', [S(m23), S(m34)], {}, [[sum((m23[i][k] * m34[k][j] for k in range(3)), Poly()) for j in range(4)] for i in range(2)], 'row-by-column sums, 2 x 3 times 3 x 4'),
        ('matrix_multiply', [S(m23), S(b3)], {}, [sum((m23[i][k] * b3[k] for k in range(3)), Poly()) for i in range(2)], 'matrix times vector, 2 x 3 times 3'),
        ('matrix_scalar', [S(m23), Sym(s_)], {}, [[x * s_ for x in r] for r in m23], 'm s'),
        ('vector_mean', [S(a3), S(b3)], {}, [(x + y) * (Poly.const(1) * (1 / __import__('fractions').Fraction(2))) for x, y in zip(a3, b3)], 'coordinate-wise mean of the vectors'),
    ]
    for name, args, kw, want, doc in cases:
        key_f = 'linalg.' + name
        if key_f not in m.funcs:
            continue
        fi = m.func(key_f)
        sk = SK(m, {})
        sk.exact = True
        why = None

        def snap(x):
            return [snap(y) for y in x] if isinstance(x, list) else id(x)
        keep = [snap(a_) for a_ in args]
        try:
            out = sk.call(fi, args, dict(kw))
            if not same(out, want):
                why = 'returns %s, the definition (%s) gives %r' % (repr(out)[:140], doc, want)
            elif [snap(a_) for a_ in args] != keep:
                why = 'an operand is modified'
            elif isinstance(out, list) and any(out is a_ for a_ in args):
                why = 'an operand itself is returned'
        except Violation as v:
            why = '%s %s' % (v.msg, v.where())
        except Unsupported as ex:
            raise AnalysisError('%s: interpreter met an unsupported construct: %s' % (fi.key, ex))
        run.ob(rule, '%s :: %s' % (fi.key, doc), why is None, 'equals its definition on symbolic operands' if why is None else why, 'geomdl/linalg.py:%d in %s' % (fi.node.lineno, fi.key))


def data_dictionary(m, pdim):
    """the dictionary the `data` property of a B-spline shape of the given parametric dimension hands to its evaluator, obtained by
    interpreting the getter on an object built by the class's own constructor and setters (knots are order tokens); None if that fails"""
    cname = ('Curve', 'Surface', 'Volume')[pdim - 1]
    degs, sizes = ((2,), (4,)) if pdim == 1 else (((2, 1), (3, 4)) if pdim == 2 else ((1, 2, 1), (2, 3, 2)))
    total = 1
    for s_ in sizes:
        total *= s_
    ab = dict(STD_ABSTRACTED)
    ab[('knotvector', 'normalize')] = Py(lambda sk, node, kv, *a, **k: [Ord(x.rank) for x in kv], 'knotvector.normalize')
    sk = SK(m, ab)
    sk.construct = True
    try:
        o_ = sk.apply(('class', ('BSpline', cname)), [], {}, None)
        sfx = [''] if pdim == 1 else ['_' + 'uvw'[d] for d in range(pdim)]
        for d in range(pdim):
            sk.call(m.lookup(o_._cls, 'degree' + sfx[d], 'setters'), [o_, degs[d]], {})
        sk.call(m.lookup(o_._cls, 'set_ctrlpts', 'methods'), [o_, pts(total, 3)] + (list(sizes) if pdim > 1 else []), {})
        for d in range(pdim):
            p, n = degs[d], sizes[d]
            sk.call(m.lookup(o_._cls, 'knotvector' + sfx[d], 'setters'), [o_, [Ord(r) for r in [0] * (p + 1) + list(range(1, n - p)) + [n - p] * (p + 1)]], {})
        g = m.lookup(o_._cls, 'data', 'getters')
        out = sk.call(g, [o_], {}) if g is not None else None
        return out if isinstance(out, dict) else None
    except (Violation, Unsupported):
        return None


# ====================================================================================== C13: sweeping on real shapes, up to the constructed result
def sw3(m, run, rule='SW3.sweep-on-real-shapes'):
    """SW3: sweeping.sweep_vector interpreted on real B-spline and rational curves and (non-square) surfaces with exact symbolic points and
    weights, the construction functions and the result's classes interpreted too: a curve gives a surface whose u direction has degree 1
    and two rows - row 0 the input's points, row 1 the input's points moved by the vector, each with the weight of its point - and whose v
    direction has the degree and knots of the curve; a surface gives a volume whose w direction has two layers built the same way; the
    input is left as it was"""
    from .skel import Sym
    from .poly import Poly
    fi = m.func('sweeping.sweep_vector')
    for cname, degs, sizes in (('Curve', (2,), (4,)), ('Surface', (2, 1), (3, 4))):
        pdim = len(degs)
        total = 1
        for s_ in sizes:
            total *= s_
        for mod in ('BSpline', 'NURBS'):
            key = 'sweeping.sweep_vector :: %s.%s' % (mod, cname)
            ab = dict(STD_ABSTRACTED)
            ab[('knotvector', 'normalize')] = Py(lambda sk, node, kv, *a, **k: [Ord(x.rank) for x in kv], 'knotvector.normalize')
            ab[('knotvector', 'generate')] = Py(lambda sk, node, degree, n, *a, **k: [Ord(900)] * (degree + 1) + [Ord(900 + i) for i in range(1, n - degree)] + [Ord(999)] * (degree + 1), 'knotvector.generate')
            sk = SK(m, ab)
            sk.exact = True
            sk.construct = True
            sk.follow_deepcopy = True
            why = None

            def getp(obj, nm):
                return sk.call(m.lookup(obj._cls, nm, 'getters'), [obj], {})
            try:
                src = sk.apply(('class', (mod, cname)), [], {}, None)
                sfx = [''] if pdim == 1 else ['_' + 'uvw'[d] for d in range(pdim)]
                for d in range(pdim):
                    sk.call(m.lookup(src._cls, 'degree' + sfx[d], 'setters'), [src, degs[d]], {})
                P = [[Poly.atom('P%d_%d' % (i, c)) for c in range(3)] for i in range(total)]
                W = [Poly.atom('W%d' % i) for i in range(total)] if mod == 'NURBS' else None
                rows = [[Sym(x) for x in r] for r in P] if W is None else [[Sym(x * W[i]) for x in r] + [Sym(W[i])] for i, r in enumerate(P)]
                sk.call(m.lookup(src._cls, 'set_ctrlpts', 'methods'), [src, rows] + (list(sizes) if pdim > 1 else []), {})
                ranks = [[10 * (d + 1) + r for r in [0] * (p + 1) + list(range(1, n - p)) + [n - p] * (p + 1)] for d, (p, n) in enumerate(zip(degs, sizes))]
                for d in range(pdim):
                    sk.call(m.lookup(src._cls, 'knotvector' + sfx[d], 'setters'), [src, [Ord(r) for r in ranks[d]]], {})
                before = [list(r) for r in src._a['_control_points']]
                vec = [Poly.atom('v%d' % c) for c in range(3)]
                out = sk.call(fi, [src, [Sym(x) for x in vec]], {})
                rsz = ([2] + list(sizes)) if pdim == 1 else (list(sizes) + [2])
                rdeg = ([1] + list(degs)) if pdim == 1 else (list(degs) + [1])
                if not isinstance(out, Bag) or not isinstance(out._cls, tuple) or out._cls != (mod, ('Surface', 'Volume')[pdim - 1]):
                    why = 'the result is not a %s.%s' % (mod, ('Surface', 'Volume')[pdim - 1])
                elif list(out._a.get('_control_points_size', [])) != rsz or list(out._a.get('_degree', [])) != rdeg:
                    why = 'the result has sizes %s and degrees %s, expected %s and %s' % (list(out._a.get('_control_points_size', [])), list(out._a.get('_degree', [])), rsz, rdeg)
                else:
                    kvs = [[getattr(k, 'rank', None) for k in kv] for kv in out._a['_knot_vector']]
                    own = kvs[1:] if pdim == 1 else kvs[:2]
                    if own != ranks:
                        why = 'the directions of the input do not keep their knot vectors in the result'
                    cp, ww = getp(out, 'ctrlpts'), (getp(out, 'weights') if W is not None else None)
                    for j in (0, 1):
                        for i in range(total if why is None else 0):
                            flat = (i + total * j) if pdim == 2 else (i + sizes[0] * j)      # volume: layer j after the surface; surface: row j of v-fastest rows
                            want = [P[i][c] + (vec[c] if j else Poly()) for c in range(3)]
                            for c in range(3):
                                s_ = _as_sym(cp[flat][c]) if len(cp) > flat and len(cp[flat]) > c else None
                                if s_ is None or not s_.same(Sym(want[c])):
                                    why = 'section %d, point %d of the result has %r in coordinate %d; expected the input point%s, %r' % (j, i, cp[flat][c] if len(cp) > flat else None, c, ' moved by the vector' if j else '', want[c])
                                    break
                            if why is None and W is not None:
                                s_ = _as_sym(ww[flat])
                                if s_ is None or not s_.same(Sym(W[i])):
                                    why = 'section %d, point %d of the result has the weight %r, the input point has %r' % (j, i, ww[flat], W[i])
                            if why:
                                break
                        if why:
                            break
                    if why is None and [list(r) for r in src._a['_control_points']] != before:
                        why = 'the input is modified'
            except Violation as v:
                why = '%s %s' % (v.msg, v.where())
            except Unsupported as ex:
                raise AnalysisError('%s: interpreter met an unsupported construct: %s' % (key, ex))
            run.ob(rule, key, why is None, 'two sections: the input and its translate, weights kept; degree 1 along the sweep; input untouched' if why is None else why, 'geomdl/sweeping.py:%d in %s' % (fi.node.lineno, fi.key))


# ====================================================================================== C02: tangents and normals from the derivative tables
def tn3(m, run, rule='TN3.tangents-and-normals-from-the-derivative-tables'):
    """TN3: _operations.tangent_curve_single, tangent_surface_single, normal_surface_single and their *_list variants interpreted on a
    shape stand-in whose derivatives() is a recorder returning a table of symbolic vectors, vector_normalize replaced by a marker: the
    curve tangent is (C, C'), asked with order 1 at the parameter; the surface tangents are (S, S_u, S_v) with S_u = SKL[1][0] and
    S_v = SKL[0][1], asked at (u, v) with order 1; the normal is (S, S_u x S_v) with the real cross product; each vector goes through
    vector_normalize exactly when normalize is set; the list variants return the single variant's result for every parameter, in order"""
    from .skel import Sym
    from .poly import Poly
    marks = {}

    def normed(sk, node, vec, *a, **k):
        tag = len(marks)
        marks[tag] = list(vec)
        return [Sym('unit%d_%d' % (tag, c)) for c in range(len(vec))]

    def origin_of(vec):
        """the vector that was normalised to give `vec` (None if vec is not a normalised marker)"""
        s = [_as_sym(x) for x in vec]
        if any(x is None or x.q is not None or len(x.p.t) != 1 for x in s):
            return None
        names = [next(iter(x.p.atoms())) for x in s]
        if not all(n.startswith('unit') for n in names):
            return None
        tags = {int(n[4:].split('_')[0]) for n in names}
        return marks[tags.pop()] if len(tags) == 1 else None

    def same_vec(got, want):
        if not isinstance(got, (list, tuple)) or len(got) != len(want):
            return False
        return all(_as_sym(g) is not None and _as_sym(g).same(Sym(w)) for g, w in zip(got, want))

    def check_vec(got, want, normalize, what):
        if normalize:
            o_ = origin_of(got) if isinstance(got, (list, tuple)) else None
            if o_ is None:
                return '%s is not passed through vector_normalize although normalize is set' % what
            got = o_
        elif isinstance(got, (list, tuple)) and origin_of(got) is not None:
            return '%s is normalised although normalize is not set' % what
        return None if same_vec(got, want) else '%s is %r, expected %r' % (what, got, want)
    ab = dict(STD_ABSTRACTED)
    ab[('linalg', 'vector_normalize')] = Py(normed, 'vector_normalize')
    ab.pop(('linalg', 'vector_cross'), None)
    asked = []

    def curve(lab):
        b = Bag('rec:curve', pdimension=1, rational=False, dimension=3)
        b._a['derivatives'] = Py(lambda sk, node, u, order=0, **k: asked.append((u, k.get('order', order))) or [[Poly.atom('C%d_%s_%d' % (r, lab(u), c)) for c in range(3)] for r in range(k.get('order', order) + 1)], 'derivatives')
        return b

    def surface(lab):
        b = Bag('rec:surface', pdimension=2, rational=False, dimension=3)
        b._a['derivatives'] = Py(lambda sk, node, u, v, order=0, **k: asked.append(((u, v), k.get('order', order))) or
                                 [[[Poly.atom('S%d%d_%s_%d' % (a_, b_, lab((u, v)), c)) for c in range(3)] for b_ in range(k.get('order', order) + 1)] for a_ in range(k.get('order', order) + 1)], 'derivatives')
        return b

    def symrows(x):
        return [[Sym(y) if not isinstance(y, Sym) else y for y in r] for r in x]
    lab1 = lambda u: str(u).replace('.', 'p')
    lab2 = lambda uv: ('%s_%s' % uv).replace('.', 'p')
    cases = []
    for normalize in (False, True):
        cases.append(('tangent_curve_single', curve, 0.25, lab1, normalize))
        cases.append(('tangent_surface_single', surface, (0.25, 0.5), lab2, normalize))
        cases.append(('normal_surface_single', surface, (0.25, 0.5), lab2, normalize))
    for fname, mk, prm, lab, normalize in cases:
        fi = m.func('_operations.' + fname)
        key = '%s :: normalize=%s' % (fi.key, normalize)
        why = None
        try:
            def one(sk, p_):
                del asked[:]
                obj = mk(lab)
                # the recorders return Poly tables: convert to Sym for the interpreter
                raw = obj._a['derivatives']
                obj._a['derivatives'] = Py(lambda sk_, node, *a, _raw=raw, **k: (lambda t: [[Sym(x) for x in r] for r in t] if fname == 'tangent_curve_single' else [[[Sym(x) for x in pt] for pt in row] for row in t])(_raw.f(sk_, node, *a, **k)), 'derivatives')
                out = sk.call(fi, [obj, p_, normalize], {})
                return out, list(asked)
            sk = SK(m, ab)
            sk.exact = True
            out, ask = one(sk, prm)
            L = lab(prm)
            if fname == 'tangent_curve_single':
                if ask != [(prm, 1)]:
                    why = 'derivatives is asked %r; the tangent needs order 1 at the parameter' % (ask,)
                elif not isinstance(out, (tuple, list)) or len(out) != 2:
                    why = 'does not return (point, tangent)'
                else:
                    why = (None if same_vec(out[0], [Poly.atom('C0_%s_%d' % (L, c)) for c in range(3)]) else 'the origin is not the curve point') or \
                        check_vec(out[1], [Poly.atom('C1_%s_%d' % (L, c)) for c in range(3)], normalize, 'the tangent')
            else:
                if ask != [(tuple(prm), 1)]:
                    why = 'derivatives is asked %r; order 1 at (u, v) is needed' % (ask,)
                else:
                    Su = [Poly.atom('S10_%s_%d' % (L, c)) for c in range(3)]
                    Sv = [Poly.atom('S01_%s_%d' % (L, c)) for c in range(3)]
                    S0 = [Poly.atom('S00_%s_%d' % (L, c)) for c in range(3)]
                    if fname == 'tangent_surface_single':
                        if not isinstance(out, (tuple, list)) or len(out) != 3:
                            why = 'does not return (point, tangent along u, tangent along v)'
                        else:
                            why = (None if same_vec(out[0], S0) else 'the origin is not the surface point') or check_vec(out[1], Su, normalize, 'the u tangent (position 1)') or \
                                check_vec(out[2], Sv, normalize, 'the v tangent (position 2)')
                    else:
                        cross = [Su[1] * Sv[2] - Su[2] * Sv[1], Su[2] * Sv[0] - Su[0] * Sv[2], Su[0] * Sv[1] - Su[1] * Sv[0]]
                        if not isinstance(out, (tuple, list)) or len(out) != 2:
                            why = 'does not return (point, normal)'
                        else:
                            why = (None if same_vec(out[0], S0) else 'the origin is not the surface point') or check_vec(out[1], cross, normalize, 'the normal')
            # the list variant maps the single one
            if why is None:
                fl = m.func('_operations.' + fname + '_list')
                plist = [prm, 0.75 if fname == 'tangent_curve_single' else (0.75, 0.125)]
                sk2 = SK(m, ab)
                sk2.exact = True
                obj = mk(lab)
                raw = obj._a['derivatives']
                obj._a['derivatives'] = Py(lambda sk_, node, *a, _raw=raw, **k: (lambda t: [[Sym(x) for x in r] for r in t] if fname == 'tangent_curve_single' else [[[Sym(x) for x in pt] for pt in row] for row in t])(_raw.f(sk_, node, *a, **k)), 'derivatives')
                outs = sk2.call(fl, [obj, list(plist), normalize], {})
                outs = list(outs) if isinstance(outs, (list, tuple)) else outs
                singles = []
                for p_ in plist:
                    sk3 = SK(m, ab)
                    sk3.exact = True
                    singles.append(one(sk3, p_)[0])

                def canon(x):
                    if isinstance(x, (list, tuple)):
                        o_ = origin_of(x) if x and not isinstance(x[0], (list, tuple)) else None
                        return ('unit', canon(o_)) if o_ is not None else tuple(canon(y) for y in x)
                    s = _as_sym(x)
                    return repr(s.p) if s is not None and s.q is None else repr(x)
                if not isinstance(outs, list) or len(outs) != len(plist) or [canon(x) for x in outs] != [canon(x) for x in singles]:
                    why = 'the list variant does not return, parameter by parameter and in order, what the single variant returns'
        except Violation as v:
            why = '%s %s' % (v.msg, v.where())
        except Unsupported as ex:
            raise AnalysisError('%s: interpreter met an unsupported construct: %s' % (key, ex))
        run.ob(rule, key, why is None, 'the vectors are the first-order cells of the derivative table, normalised exactly when asked; the list variant maps the single one' if why is None else why,
               'geomdl/_operations.py:%d in %s' % (fi.node.lineno, fi.key))


# ====================================================================================== C20: ray intersection status on rational rays
def rs2(m, run, rule='RS2.ray-intersection-status'):
    """RS2: ray.intersect interpreted on rays of the real Ray class with small integer coordinates (direction cross products of integer
    length, so that every quantity is exact), in space and in the plane: rays that meet are INTERSECT with parameters at which both rays
    evaluate to the common point (also when they share their origin), parallel and coincident rays - same or different origins - are
    COLINEAR, rays that neither meet nor are parallel are SKEW"""
    from fractions import Fraction as F
    fi = m.func('ray.intersect')
    cases = [
        ('meeting rays', ((0, 0, 0), (1, 0, 0)), ((2, -1, 0), (2, 1, 0)), 'INTERSECT', (2, 0, 0)),
        ('rays with one origin and different directions', ((1, 1, 0), (2, 1, 0)), ((1, 1, 0), (1, 3, 0)), 'INTERSECT', (1, 1, 0)),
        ('parallel rays', ((0, 0, 0), (1, 0, 0)), ((0, 1, 0), (1, 1, 0)), 'COLINEAR', None),
        ('rays with one origin and the same direction', ((0, 0, 0), (1, 0, 0)), ((0, 0, 0), (3, 0, 0)), 'COLINEAR', None),
        ('coincident rays with different origins', ((0, 0, 0), (1, 0, 0)), ((5, 0, 0), (7, 0, 0)), 'COLINEAR', None),
        ('skew rays', ((0, 0, 0), (1, 0, 0)), ((0, 1, 1), (0, 1, 3)), 'SKEW', None),
        ('meeting rays in the plane', ((0, 0), (1, 0)), ((2, -1), (2, 1)), 'INTERSECT', (2, 0)),
        ('parallel rays in the plane', ((0, 0), (1, 0)), ((0, 1), (1, 1)), 'COLINEAR', None),
    ]
    bad = []
    for what, r1, r2, want, meet in cases:
        sk = SK(m, {})
        sk.exact = True
        sk.construct = True
        why = None
        try:
            a = sk.apply(('class', ('ray', 'Ray')), [list(r1[0]), list(r1[1])], {}, None)
            b = sk.apply(('class', ('ray', 'Ray')), [list(r2[0]), list(r2[1])], {}, None)
            out = sk.call(fi, [a, b], {})
            codes = {nm: sk.class_attr(('ray', 'RayIntersection'), nm) for nm in ('INTERSECT', 'COLINEAR', 'SKEW')}
            if not isinstance(out, tuple) or len(out) != 3:
                why = 'does not return (t1, t2, status)'
            else:
                got = next((nm for nm, v_ in codes.items() if v_ == out[2]), out[2])
                if got != want:
                    why = 'the status is %s, expected %s' % (got, want)
                elif meet is not None:
                    for ray_, t_, nm in ((r1, out[0], 'first'), (r2, out[1], 'second')):
                        pt = [F(ray_[0][c]) + F(t_) * (F(ray_[1][c]) - F(ray_[0][c])) for c in range(len(meet))]
                        if pt != [F(x) for x in meet]:
                            why = 'the %s ray at its returned parameter %s is at %s, the rays meet at %s' % (nm, t_, [str(x) for x in pt], list(meet))
                            break
        except Violation as v:
            why = '%s %s' % (v.msg, v.where())
        except Unsupported as ex:
            raise AnalysisError('%s: interpreter met an unsupported construct: %s' % (fi.key, ex))
        if why:
            bad.append((what, why))
    run.ob(rule, '%s :: %d pairs of rays' % (fi.key, len(cases)), not bad, 'INTERSECT with the parameters of the common point, COLINEAR, SKEW as the rays are' if not bad else '%s: %s   [%d of %d]' % (bad[0][0], bad[0][1], len(bad), len(cases)),
           'geomdl/ray.py:%d in %s' % (fi.node.lineno, fi.key))


# ====================================================================================== C15: the quadrilateral mesh on a labelled grid
def qm2(m, run, rule='QM2.quad-mesh-on-labelled-grid'):
    """QM2: _tessellate.make_quad_mesh interpreted on labelled points of non-square and square grids (2 x 2 .. 4 x 5, 5 x 3) with the element
    classes replaced by recorders: vertex k carries point k and the id k, its (u, v) is (k // size_v / (size_u - 1), k % size_v /
    (size_v - 1)); there is exactly one quad per cell (i, j), listed with j varying first, ids 0, 1, 2 ..., whose corners are the vertices
    (i, j), (i+1, j), (i+1, j+1), (i, j+1) in this cyclic order"""
    fi = m.func('_tessellate.make_quad_mesh')
    bad, cnt = [], 0
    for su, sv in ((2, 2), (2, 3), (3, 2), (3, 3), (4, 5), (5, 3)):
        cnt += 1
        made = {'Vertex': [], 'Quad': []}

        def mk(cls):
            def f(sk, node, *a, **k):
                b = Bag(cls, id=k.get('id', None), data=list(a), uv=[Tok('PH0'), Tok('PH0')])
                made[cls].append(b)
                return b
            return f
        ab = dict(STD_ABSTRACTED)
        ab[('class', ('elements', 'Vertex'))] = mk('Vertex')
        ab[('class', ('elements', 'Quad'))] = mk('Quad')
        P = pts(su * sv, 3, labelled=True)
        sk = SK(m, ab)
        why = None
        try:
            out = sk.call(fi, [P, su, sv], {})
            verts, quads = out if isinstance(out, tuple) and len(out) == 2 else (None, None)
            if not isinstance(verts, list) or not isinstance(quads, list):
                why = 'does not return (vertices, quads)'
            elif len(verts) != su * sv:
                why = '%d vertices for %d points' % (len(verts), su * sv)
            else:
                for k, v in enumerate(verts):
                    f = footprint(v._a['data']) if isinstance(v, Bag) else None
                    uv = v._a.get('uv') if isinstance(v, Bag) else None
                    wuv = [(k // sv) / float(max(su - 1, 1)), (k % sv) / float(max(sv - 1, 1))]
                    if not f or f != frozenset([k]) or v._a.get('id') != k:
                        why = 'vertex %d carries point %s and the id %r' % (k, sorted(f) if f else None, v._a.get('id') if isinstance(v, Bag) else None)
                    elif not isinstance(uv, (list, tuple)) or len(uv) != 2 or not all(isinstance(x, (int, float)) for x in uv) or any(abs(x - y) > 1e-12 for x, y in zip(uv, wuv)):
                        why = 'vertex %d has the parametric position %r, its point was sampled at %r' % (k, uv, wuv)
                    if why:
                        break
            if why is None:
                want = []
                for i in range(su - 1):
                    for j in range(sv - 1):
                        want.append((j + sv * i, j + sv * (i + 1), j + 1 + sv * (i + 1), j + 1 + sv * i))
                got = []
                for q in quads:
                    ids = tuple(x._a.get('id') if isinstance(x, Bag) else None for x in (q._a['data'] if isinstance(q, Bag) else []))
                    got.append(ids)

                def cyc(t):
                    """a quad up to its starting corner and orientation"""
                    rots = [t[r:] + t[:r] for r in range(4)] + [tuple(reversed(t))[r:] + tuple(reversed(t))[:r] for r in range(4)]
                    return min(rots)
                if len(got) != len(want):
                    why = '%d quads, the %d x %d grid has %d cells' % (len(got), su, sv, len(want))
                elif [cyc(g) if len(g) == 4 and None not in g else g for g in got] != [cyc(w) for w in want]:
                    k_ = next(i_ for i_, (g, w) in enumerate(zip(got, want)) if len(g) != 4 or None in g or cyc(g) != cyc(w))
                    why = 'quad %d has the corners %s; cell (%d, %d) has %s' % (k_, got[k_], k_ // (sv - 1), k_ % (sv - 1), want[k_])
                elif [q._a.get('id') for q in quads] != list(range(len(quads))):
                    why = 'the quads are not numbered 0, 1, 2, ...'
        except Violation as v:
            why = '%s %s' % (v.msg, v.where())
        except Unsupported as ex:
            raise AnalysisError('%s: interpreter met an unsupported construct: %s' % (fi.key, ex))
        if why:
            bad.append(('%d x %d grid' % (su, sv), why))
    run.ob(rule, '%s :: %d grids' % (fi.key, cnt), not bad, 'one quad per cell with the four corners of that cell in cyclic order; vertices numbered like the points' if not bad else
           '%s: %s   [%d of %d]' % (bad[0][0], bad[0][1], len(bad), cnt), 'geomdl/_tessellate.py:%d in %s' % (fi.node.lineno, fi.key))


# ====================================================================================== C15: the facet normal of a triangle
def fn2(m, run, rule='FN2.facet-normal-is-the-edge-cross-product'):
    """FN2: linalg.triangle_normal interpreted on a triangle whose nine vertex coordinates are symbolic atoms (exact arithmetic, both outcomes
    of every comparison the atoms leave open): on every path the result is a positive multiple of (v1 - v0) x (v2 - v1) -- the
    un-normalised cross product or that vector divided by its length -- so every non-degenerate facet, however small, gets the normal of
    its own plane and orientation"""
    from .skel import Sym
    from .poly import Poly
    fi = m.func('linalg.triangle_normal')
    V = [[Poly.atom('%s%d' % (n_, i)) for i in range(3)] for n_ in 'abc']
    e1 = [V[1][i] - V[0][i] for i in range(3)]
    e2 = [V[2][i] - V[1][i] for i in range(3)]
    cr = [e1[1] * e2[2] - e1[2] * e2[1], e1[2] * e2[0] - e1[0] * e2[2], e1[0] * e2[1] - e1[1] * e2[0]]

    def make_sk():
        sk = SK(m, {})
        sk.exact = True
        sk.text = True          # a rounding to a number of decimals written as float(format(x)) hands back x
        return sk

    def scenario(sk):
        tri = Bag('Triangle', vertices=[Bag('Vertex', data=[Sym(x) for x in v], id=k) for k, v in enumerate(V)], id=0)
        try:
            out = sk.call(fi, [tri], {})
        except Raised as ex:
            return 'raises %s' % ex.exc
        if not isinstance(out, (list, tuple)) or len(out) != 3:
            return 'returns %s, not a 3-D vector' % repr(out)[:100]
        r = [_as_sym(x) for x in out]
        if any(x is None for x in r):
            return 'returns %s' % repr(out)[:120]
        if all(x.is_zero() for x in r):
            return 'returns the constant vector %s for a facet with arbitrary vertices: a small but non-degenerate facet has a non-zero normal' % repr([getattr(x, 'val', x) for x in out])
        c = [Sym(x) for x in cr]
        # parallel: r_i c_j == r_j c_i
        for i in range(3):
            for j in range(i + 1, 3):
                if not Sym(r[i].p * cr[j], r[i].q).same(Sym(r[j].p * cr[i], r[j].q)):
                    return 'returns %s, which is not parallel to (v1 - v0) x (v2 - v1)' % repr(out)[:160]
        # orientation: r = k c with k a positive constant, or 1 / sqrt(.) (a length)
        k = None
        for i in range(3):
            # r_i.p / r_i.q = k * cr_i  ->  k = r_i.p / (r_i.q cr_i)
            d = r[i].p.divexact(cr[i]) if r[i].p.t else None
            if d is not None:
                k = (d, r[i].q)
                break
        if k is None:
            return 'returns %s: its factor against the cross product could not be isolated' % repr(out)[:140]
        num, den = k
        pos_num = num.is_const() and num.const_value() > 0
        neg_num = num.is_const() and num.const_value() < 0
        den_ok = den is None or (len(den.t) == 1 and all(a.startswith('sqrt(') for mono in den.t for a, _ in mono) and list(den.t.values())[0] > 0)
        if neg_num and den_ok:
            return 'returns the cross product reversed (factor %s): the facet orientation is flipped' % num
        if not (pos_num and den_ok):
            return 'returns the cross product times %s%s, which is not known to be positive' % (num, '' if den is None else ' / (%s)' % den)
        return None
    why = forked(make_sk, scenario, fi.key, max_paths=64)
    run.ob(rule, fi.key, why is None, 'a positive multiple of (v1 - v0) x (v2 - v1) on every path' if why is None else why, 'geomdl/linalg.py:%d in %s' % (fi.node.lineno, fi.key))


# ====================================================================================== state of two new objects is disjoint
def own2(m, run, classes, rule='OWN2.new-objects-share-no-mutable-state'):
    """OWN2: every class is constructed twice by interpreting its own __init__ chain in one interpreter (class-level attributes are
    evaluated once, as when the class body runs): no list or dictionary reachable from the attributes of the first object is reachable
    from the second -- the cache dictionary, the option dictionary, the control points, knot vectors and every other container belong
    to one object only, so what is cached or stored on one shape is never seen by another"""
    for cls in classes:
        key = '%s.%s' % cls
        sk = SK(m, dict(STD_ABSTRACTED))
        sk.construct = True
        why = None
        try:
            args = [2, 3] if cls[0] == 'CPGen' else []
            a = sk.apply(('class', cls), list(args), {}, None)
            b = sk.apply(('class', cls), list(args), {}, None)
            if not isinstance(a, Bag) or not isinstance(b, Bag) or a is b:
                why = 'constructing the class twice does not give two objects'
            else:
                def reach(ob, skip=(), bags=None):
                    seen, out, todo = set(), {}, [(ob, 'self')]
                    while todo:
                        x, path = todo.pop()
                        if id(x) in seen or id(x) in skip:
                            continue
                        seen.add(id(x))
                        if isinstance(x, Bag):
                            if bags is not None:
                                bags.add(id(x))
                            for k_, v_ in x._a.items():
                                if not k_.startswith('__'):
                                    todo.append((v_, path + '.' + k_))
                        elif isinstance(x, (list, set)):
                            out[id(x)] = path
                            if isinstance(x, list):
                                for i_, y in enumerate(x[:50]):
                                    todo.append((y, '%s[%d]' % (path, i_)))
                        elif isinstance(x, dict):
                            out[id(x)] = path
                            for k_, y in x.items():
                                todo.append((y, '%s[%r]' % (path, k_)))
                    return out
                # a helper object both shapes refer to (a stateless evaluator kept at module level, say) is not state of either shape
                ba, bb = set(), set()
                reach(a, bags=ba), reach(b, bags=bb)
                ra_, rb_ = reach(a, skip=ba & bb), reach(b, skip=ba & bb)
                both = [(ra_[i], rb_[i]) for i in ra_ if i in rb_]
                if both:
                    both.sort(key=lambda t: (len(t[0]), t[0]))
                    why = '`%s` of one new object and `%s` of another are one and the same container: what is stored or cached on one shape shows up on every other' % both[0]
        except Violation as v:
            why = '%s %s' % (v.msg, v.where())
        except Unsupported as ex:
            raise AnalysisError('%s: interpreter met an unsupported construct: %s' % (key, ex))
        ci = m.classes[cls]
        run.ob(rule, key, why is None, 'two new objects reach disjoint lists and dictionaries' if why is None else why, 'geomdl/%s.py:%d class %s' % (cls[0], ci.node.lineno, cls[1]))


# ====================================================================================== C02: normalisation of a vector
def vn2(m, run, rule='VN2.normalised-vector-is-v-over-its-length'):
    """VN2: linalg.vector_normalize and vector_magnitude interpreted on vectors of symbolic atoms (2-D and 3-D, exact arithmetic, the rounding
    to the default number of decimals through a formatted string handed back as the value, both outcomes of every comparison the atoms
    leave open): vector_magnitude is sqrt(v . v); on every path vector_normalize either raises (the zero vector has no direction) or
    returns v_i / sqrt(v . v) for every coordinate, in a new list -- no vector, however close its length is to one, is handed back as
    it came"""
    from .skel import Sym
    from .poly import Poly
    fn_, fm_ = m.func('linalg.vector_normalize'), m.func('linalg.vector_magnitude')
    for dim in (3, 2):
        V = [Poly.atom('v%d' % i) for i in range(dim)]
        ss = Poly()
        for x in V:
            ss = ss + x * x
        length = Sym('sqrt(%r)' % (ss,))

        def make_sk():
            sk = SK(m, {})
            sk.exact = True
            sk.text = True
            return sk

        def scen_mag(sk):
            out = sk.call(fm_, [[Sym(x) for x in V]], {})
            s_ = _as_sym(out)
            if s_ is None or not s_.same(length):
                return 'returns %s, the length of v is %r' % (repr(out)[:120], length)
            return None

        def scen_norm(sk):
            inp = [Sym(x) for x in V]
            try:
                out = sk.call(fn_, [inp], {})
            except Raised:
                return None
            except Violation as v:
                if v.rule == 'RAISE':
                    return None
                raise
            if not isinstance(out, list) or len(out) != dim:
                return 'returns %s' % repr(out)[:120]
            if out is inp:
                return 'returns the input list itself'
            for i, (g_, x) in enumerate(zip(out, V)):
                s_ = _as_sym(g_)
                if s_ is None or not Sym(s_.p * length.p, s_.q).same(Sym(x)):
                    return 'coordinate %d of the result is %s, v_%d / |v| is (%r) / (%r)' % (i, repr(g_)[:100], i, x, length.p)
            return None
        for fi, scen, what in ((fm_, scen_mag, 'sqrt(v . v)'), (fn_, scen_norm, 'v / |v| on every path that returns')):
            why = forked(make_sk, scen, fi.key, max_paths=64)
            run.ob(rule, '%s :: %d-D' % (fi.key, dim), why is None, what if why is None else why, 'geomdl/linalg.py:%d in %s' % (fi.node.lineno, fi.key))


# ====================================================================================== C11: global curve interpolation against recorders
def ic2(m, run, rule='IC2.curve-interpolation-on-labelled-points'):
    """IC2: fitting.interpolate_curve interpreted on n labelled data points (n = 2 .. 6) for every degree 1 .. n - 1 -- the single-segment case
    degree = n - 1 included -- and both parametrisations, its helpers replaced by recorders: the parameters are computed from the data
    points with the caller's centripetal flag, the knot vector from (the requested degree, n, those parameters), the coefficient matrix
    from (the requested degree, that knot vector, those parameters), one system is solved with the data points themselves as the
    right-hand side, and the result is a curve of the requested degree with that knot vector and the n solved control points"""
    fi = m.func('fitting.interpolate_curve')
    bad, cnt = [], 0
    for n in range(2, 7):
        for p in range(1, n):
            for cen in (None, False, True):
                cnt += 1

                def L(*lab):
                    return Tok('DEF', dep=frozenset([lab]))
                P = [[L('Q', i, c) for c in range(3)] for i in range(n)]
                uk = [L('uk', i) for i in range(n)]
                rec = {'params': [], 'kv': [], 'build': [], 'solve': []}

                def lab(pt):
                    f = footprint(pt) if isinstance(pt, (list, tuple)) else None
                    heads = {x[:-1] for x in f} if f else set()
                    return next(iter(heads)) if len(heads) == 1 else None

                def cpc(sk, node, points, centripetal=False):
                    rec['params'].append(([lab(q) for q in points], centripetal))
                    return uk

                def ckv(sk, node, degree, num, params):
                    kv = [L('kv', i) for i in range(num + degree + 1)] if isinstance(num, int) and isinstance(degree, int) else [L('kv', 0)]
                    rec['kv'].append((degree, num, params is uk, kv))
                    return kv

                def bcm(sk, node, degree, kv, params, pts_):
                    rec['build'].append((degree, kv, params is uk, [lab(q) for q in pts_]))
                    return ('A', len(rec['build']) - 1)

                def lus(sk, node, A, rhs):
                    rec['solve'].append((A, [lab(q) for q in rhs]))
                    return [[L('X', i, c) for c in range(3)] for i in range(len(rhs))]
                ab = dict(STD_ABSTRACTED)
                ab[('fitting', 'compute_params_curve')] = Py(cpc, 'compute_params_curve')
                ab[('fitting', 'compute_knot_vector')] = Py(ckv, 'compute_knot_vector')
                ab[('fitting', '_build_coeff_matrix')] = Py(bcm, '_build_coeff_matrix')
                ab[('linalg', 'lu_solve')] = Py(lus, 'lu_solve')
                shapes = []
                ab[('class', ('BSpline', 'Curve'))] = lambda sk, node, *a, **k: rec_shape(('BSpline', 'Curve'), shapes, {}, dict(k), 'constructed')
                sk = SK(m, ab)
                why = None
                want_pts = [('Q', i) for i in range(n)]
                try:
                    out = sk.call(fi, [P, p], {} if cen is None else {'centripetal': cen})
                    if len(rec['params']) != 1 or rec['params'][0][0] != want_pts:
                        why = 'the parameters are not computed once from the data points'
                    elif bool(rec['params'][0][1]) != bool(cen):
                        why = 'compute_params_curve gets centripetal=%r, the caller asked for %r' % (rec['params'][0][1], bool(cen))
                    elif len(rec['kv']) != 1 or rec['kv'][0][:3] != (p, n, True):
                        why = 'the knot vector is computed from (degree %r, %r points, %s); requested were degree %d and %d points with the computed parameters' % (
                            rec['kv'] and rec['kv'][0][0], rec['kv'] and rec['kv'][0][1], 'the computed parameters' if rec['kv'] and rec['kv'][0][2] else 'other parameters', p, n)
                    elif len(rec['build']) != 1 or rec['build'][0][0] != p or rec['build'][0][1] is not rec['kv'][0][3] or not rec['build'][0][2] or rec['build'][0][3] != want_pts:
                        why = 'the coefficient matrix is not built from (the requested degree, the computed knot vector, the computed parameters, the data points)'
                    elif len(rec['solve']) != 1 or rec['solve'][0][0] != ('A', 0) or rec['solve'][0][1] != want_pts:
                        why = 'the system solved is not (coefficient matrix, data points)'
                    elif not isinstance(out, Bag):
                        why = 'does not return a curve'
                    else:
                        a_ = out._a
                        cp = a_.get('ctrlpts')
                        if a_.get('degree') != p:
                            why = 'the result has degree %r, requested was %d' % (a_.get('degree'), p)
                        elif not isinstance(cp, list) or [lab(q) for q in cp] != [('X', i) for i in range(n)]:
                            why = 'the control points of the result are not the %d solved points in order' % n
                        elif a_.get('knotvector') is not rec['kv'][0][3]:
                            why = 'the knot vector of the result is not the computed one'
                except Violation as v:
                    why = '%s %s' % (v.msg, v.where())
                except Unsupported as ex:
                    raise AnalysisError('%s: interpreter met an unsupported construct: %s' % (fi.key, ex))
                if why:
                    bad.append(('%d points, degree %d, centripetal=%r' % (n, p, cen), why))
    run.ob(rule, '%s :: %d (points, degree, parametrisation) cases' % (fi.key, cnt), not bad,
           'requested degree, computed parameters / knots / matrix, data points as the right-hand side, solved points as the control points' if not bad else
           '%s: %s   [%d of %d]' % (bad[0][0], bad[0][1], len(bad), cnt), 'geomdl/fitting.py:%d in %s' % (fi.node.lineno, fi.key))


# ====================================================================================== the control points stored are the control points given
def sc2(m, run, rule='SC2.control-points-are-stored-as-given'):
    """SC2: every spline class is built by interpreting its own constructor with a small `precision` (2 decimals: the setting exists to round
    knot vectors and to compare shapes) and its control points are assigned through the real set_ctrlpts and through the ctrlpts /
    ctrlptsw setters as exact symbolic coordinates: what the object holds and what the ctrlpts / ctrlptsw getters return is, coordinate by
    coordinate, what was given (weighted for rational shapes) -- no coordinate is rounded, scaled or reordered on the way in"""
    from .skel import Sym
    from .poly import Poly
    cases = (('Curve', (2,), (4,)), ('Surface', (2, 1), (3, 4)), ('Volume', (1, 2, 1), (2, 3, 2)))
    for mod in ('BSpline', 'NURBS'):
        for cname, degs, sizes in cases:
            pdim = len(degs)
            total = 1
            for s_ in sizes:
                total *= s_
            hd = 4 if mod == 'NURBS' else 3
            key = '%s.%s' % (mod, cname)
            sfx = [''] if pdim == 1 else ['_' + 'uvw'[d] for d in range(pdim)]
            P = [[Poly.atom('P_%d_%d' % (i, c)) for c in range(hd)] for i in range(total)]
            why = None
            try:
                for how in ('set_ctrlpts', 'ctrlpts' if mod == 'BSpline' else 'ctrlptsw'):
                    sk = SK(m, dict(STD_ABSTRACTED))
                    sk.exact = True
                    sk.construct = True
                    o = sk.apply(('class', (mod, cname)), [], {'precision': 2}, None)
                    for d in range(pdim):
                        sk.call(m.lookup(o._cls, 'degree' + sfx[d], 'setters'), [o, degs[d]], {})
                    given = [[Sym(x) for x in row] for row in P]
                    if how == 'set_ctrlpts':
                        sk.call(m.lookup(o._cls, 'set_ctrlpts', 'methods'), [o, given] + (list(sizes) if pdim > 1 else []), {})
                    else:
                        if pdim > 1:
                            for d in range(pdim):
                                o._a['_control_points_size'][d] = sizes[d]
                        sk.call(m.lookup(o._cls, how, 'setters'), [o, given], {})
                    held = o._a.get('_control_points')
                    views = [('the stored control points', held)]
                    g_ = m.lookup(o._cls, 'ctrlptsw' if mod == 'NURBS' else 'ctrlpts', 'getters')
                    if g_ is not None:
                        views.append(('the %s getter' % g_.name, sk.call(g_, [o], {})))
                    for what, got in views:
                        if not isinstance(got, (list, tuple)) or len(got) != total:
                            why = 'after %s: %s has %r points, %d were given' % (how, what, len(got) if isinstance(got, (list, tuple)) else got, total)
                            break
                        for i in range(total):
                            row = got[i]
                            if not isinstance(row, (list, tuple)) or len(row) != hd:
                                why = 'after %s: point %d of %s is %s' % (how, i, what, repr(row)[:80])
                                break
                            for c in range(hd):
                                s_ = _as_sym(row[c])
                                if s_ is None or not s_.same(Sym(P[i][c])):
                                    why = 'after %s (object built with precision=2): coordinate %d of point %d of %s is %s, given was %r' % (how, c, i, what, repr(row[c])[:100], P[i][c])
                                    break
                            if why:
                                break
                        if why:
                            break
                    if why:
                        break
            except Violation as v:
                why = '%s %s' % (v.msg, v.where())
            except Unsupported as ex:
                raise AnalysisError('%s: interpreter met an unsupported construct: %s' % (key, ex))
            ci = m.classes[(mod, cname)]
            run.ob(rule, key, why is None, 'set_ctrlpts and the setter store every coordinate as given, the getters return it' if why is None else why, 'geomdl/%s.py:%d class %s' % (mod, ci.node.lineno, cname))


# ====================================================================================== C20: the convex hull on every small point set in general position
def ch2(m, run, rule='CH2.convex-hull-on-all-small-point-sets'):
    """CH2: linalg.convex_hull interpreted with exact integer arithmetic on every set of 3 .. 5 points of the 3 x 3 integer grid that is not
    contained in a line (collinear triples and points sharing an x or a y coordinate included), each in three input orders (as enumerated,
    reversed, rotated), and on every 4-point set of the 4 x 4 grid without collinear triples: the result contains every extreme point of
    the set, only points of the set that lie on the boundary of its hull, no point twice, in counter-clockwise order, and the input list
    is left as it was"""
    import itertools
    fi = m.func('linalg.convex_hull')

    def orient(p, q, r):
        return (q[0] - p[0]) * (r[1] - p[1]) - (r[0] - p[0]) * (q[1] - p[1])

    def chain(ps, strict):
        out = []
        for p in ps:
            while len(out) > 1 and (orient(out[-2], out[-1], p) <= 0 if strict else orient(out[-2], out[-1], p) < 0):
                out.pop()
            out.append(p)
        return out

    def reference(pts_, strict):
        ps = sorted(pts_)
        lo, up = chain(ps, strict), chain(list(reversed(ps)), strict)
        return lo[:-1] + up[:-1]
    cases = []
    g3 = [(x, y) for x in range(3) for y in range(3)]
    for n in (3, 4, 5):
        for sub in itertools.combinations(g3, n):
            if all(orient(sub[0], sub[1], c) == 0 for c in sub[2:]):
                continue
            cases += [(sub, list(sub)), (sub, list(reversed(sub))), (sub, list(sub[n // 2:] + sub[:n // 2]))]
    g4 = [(x, y) for x in range(4) for y in range(4)]
    for sub in itertools.combinations(g4, 4):
        if not any(orient(a, b, c) == 0 for a, b, c in itertools.combinations(sub, 3)):
            cases.append((sub, list(reversed(sub))))
    bad = []
    for sub, order in cases:
        if bad:
            break
        extreme, boundary = set(reference(sub, True)), set(reference(sub, False))
        inp = [list(p) for p in order]
        keep = [list(p) for p in inp]
        sk = SK(m, {})
        sk.exact = True
        why = None
        try:
            out = sk.call(fi, [inp], {})
            got = [tuple(int(c) for c in p) for p in out] if isinstance(out, list) and all(isinstance(p, (list, tuple)) and len(p) == 2 and not any(isinstance(c, Tok) for c in p) for p in out) else None
            if got is None:
                why = 'returns %s' % repr(out)[:120]
            elif len(set(got)) != len(got):
                why = 'returns %s: a point is listed twice' % (got,)
            elif not extreme <= set(got):
                why = 'returns %s: the extreme point %s of the set is missing' % (got, sorted(extreme - set(got))[0])
            elif not set(got) <= boundary:
                why = 'returns %s: %s does not lie on the boundary of the hull' % (got, sorted(set(got) - boundary)[0])
            elif any(orient(got[k - 1], got[k], got[(k + 1) % len(got)]) < 0 for k in range(len(got))) or sum(a[0] * b[1] - b[0] * a[1] for a, b in zip(got, got[1:] + got[:1])) <= 0:
                why = 'returns %s, which is not in counter-clockwise order' % (got,)
            elif inp != keep:
                why = 'the input list is modified'
        except Violation as v:
            why = '%s %s' % (v.msg, v.where())
        except Unsupported as ex:
            raise AnalysisError('%s: interpreter met an unsupported construct: %s' % (fi.key, ex))
        if why:
            bad.append(('points %s' % (order,), why))
    run.ob(rule, '%s :: %d (point set, input order) cases' % (fi.key, len(cases)), not bad, 'every extreme point, boundary points only, once each, counter-clockwise' if not bad else '%s: %s' % bad[0],
           'geomdl/linalg.py:%d in %s' % (fi.node.lineno, fi.key))


# ====================================================================================== C09: the weighted grid follows its grid and its weights
def gw2(m, run, rule='GW2.weighted-grid-follows-its-grid-and-weights'):
    """GW2: a CPGen.GridWeighted with symbolic extents is built by interpreting its own constructor and driven through the real generate /
    weight / grid members (exact arithmetic): after generate, after a new scalar and a new per-point weight, after generating again with
    other division counts (the weighted points of the first grid having been read) and after a weight on the second grid, the grid
    getter returns, for every (i, j), the current grid point (i, j) multiplied by the current weight at j + i * columns, followed by
    that weight, in the shape of the current grid"""
    from .skel import Sym
    from .poly import Poly
    cls = ('CPGen', 'GridWeighted')
    if cls not in m.classes:
        raise AnalysisError('CPGen.GridWeighted not found')
    sk = SK(m, dict(STD_ABSTRACTED))
    sk.exact = True
    sk.construct = True
    why = None
    steps = []
    try:
        g = sk.apply(('class', cls), [Sym('sx'), Sym('sy')], {'z_value': Sym('z')}, None)

        def call(name, *a):
            return sk.call(m.lookup(cls, name, 'methods'), [g] + list(a), {})

        def setw(v):
            sk.call(m.lookup(cls, 'weight', 'setters'), [g, v], {})

        def view(what):
            steps.append(what)
            got = sk.call(m.lookup(cls, 'grid', 'getters'), [g], {})
            gp, ws = g._a['_grid_points'], g._a['_weights']
            if not isinstance(got, list) or len(got) != len(gp) or any(len(r_) != len(c_) for r_, c_ in zip(got, gp)):
                return '%s: the weighted grid has the shape %s, the grid %s' % (what, [len(r_) for r_ in got] if isinstance(got, list) else got, [len(c_) for c_ in gp])
            for i, cols in enumerate(gp):
                for j, pt in enumerate(cols):
                    w = _as_sym(ws[j + i * len(cols)]) if j + i * len(cols) < len(ws) else None
                    if w is None:
                        return '%s: no weight for grid point (%d, %d)' % (what, i, j)
                    cell = got[i][j]
                    if len(cell) != len(pt) + 1:
                        return '%s: weighted point (%d, %d) has %d coordinates' % (what, i, j, len(cell))
                    for c in range(len(pt)):
                        a_, b_ = _as_sym(cell[c]), _as_sym(pt[c])
                        if a_ is None or b_ is None or not a_.same(Sym(b_.p * w.p, b_.q)):
                            return '%s: coordinate %d of weighted point (%d, %d) is %s; the grid point has %s and the weight is %s' % (what, c, i, j, repr(cell[c])[:80], repr(pt[c])[:60], repr(ws[j + i * len(cols)])[:40])
                    l_ = _as_sym(cell[-1])
                    if l_ is None or not l_.same(w):
                        return '%s: weighted point (%d, %d) carries the weight %s, the weight list says %s' % (what, i, j, repr(cell[-1])[:40], repr(ws[j + i * len(cols)])[:40])
            return None
        call('generate', 2, 3)
        why = view('after generate(2, 3)')
        if why is None:
            setw(2)
            why = view('after weight = 2')
        if why is None:
            setw([1 + k for k in range(12)])
            why = view('after a weight per point')
        if why is None:
            call('generate', 1, 2)
            why = view('after generate(1, 2) on a grid whose weighted points were read')
        if why is None:
            setw(3)
            why = view('after weight = 3 on the second grid')
        if why is None:
            call('generate', 2, 3)
            why = view('after generate(2, 3) again')
    except Violation as v:
        why = '%s %s   [%s]' % (v.msg, v.where(), steps[-1] if steps else 'construction')
    except Raised as ex:
        why = 'raises %s   [%s]' % (ex.exc, steps[-1] if steps else 'construction')
    except Unsupported as ex:
        raise AnalysisError('CPGen.GridWeighted: interpreter met an unsupported construct: %s' % ex)
    ci = m.classes[cls]
    run.ob(rule, 'CPGen.GridWeighted :: generate / weight / grid, %d reads' % max(len(steps), 1), why is None, 'every read returns grid point x own weight, weight, in the shape of the current grid' if why is None else why,
           'geomdl/CPGen.py:%d class GridWeighted' % ci.node.lineno)


# ====================================================================================== C12 / C15: the aggregate mesh of a container, rebuilt
def ct2(m, run, rule='CT2.container-mesh-is-numbered-afresh-on-every-rebuild'):
    """CT2: a real multi.SurfaceContainer (its own constructor, add, tessellate, reset, vertices / faces getters interpreted) holding recorder
    surfaces that behave like abstract.Surface.tessellate as TV3 decides it (a tessellated surface keeps its mesh unless forced; a
    forced or first tessellation makes new vertices 0 .. n-1 and faces 0 .. f-1): after the first tessellation, after adding a third
    surface, after a forced rebuild and after a rebuild that pushes the container's delta, with and without delta=False, the aggregate
    lists the vertices of every surface once, in surface order, numbered 0, 1, 2 ... without gaps, and the faces likewise"""
    cls = ('multi', 'SurfaceContainer')
    fi = m.lookup(cls, 'tessellate', 'methods')
    if fi is None:
        raise AnalysisError('multi.SurfaceContainer.tessellate not found')
    bad = []
    for delta_kw in (False, True):
        sk = SK(m, dict(STD_ABSTRACTED))
        sk.construct = True
        log = []

        def surface(name, nv, nf):
            srf = Bag('rec:surface', pdimension=2, dimension=3, delta=[0.1, 0.1], name=name, sample_size=3, sample_size_u=3, sample_size_v=3)
            srf._a['__isa__'] = (('abstract', 'Surface'), ('BSpline', 'Surface'))
            state = {'done': False}
            tsl = Bag('rec:tessellator', vertices=[], faces=[])
            tsl._a['is_tessellated'] = Py(lambda sk_, node: state['done'], 'is_tessellated')
            srf._a['tessellator'] = tsl

            def tessellate(sk_, node, *a, **k):
                log.append((name, 'tessellate', dict(k)))
                if state['done'] and not k.get('force', False):
                    return None
                verts = [Bag('Vertex', id=i, _of=name) for i in range(nv)]
                faces_ = [Bag('Triangle', id=i, _of=name, vertices=[verts[i % nv], verts[(i + 1) % nv], verts[(i + 2) % nv]]) for i in range(nf)]
                srf._a['vertices'] = tsl._a['vertices'] = verts
                srf._a['faces'] = tsl._a['faces'] = faces_
                state['done'] = True
                return None

            def evaluate(sk_, node, *a, **k):
                log.append((name, 'evaluate', dict(k)))
                return None
            srf._a['tessellate'] = Py(tessellate, 'tessellate')
            srf._a['evaluate'] = Py(evaluate, 'evaluate')
            srf._a['vertices'], srf._a['faces'] = [], []
            srf._a['__iter__'] = [srf]
            return srf, (nv, nf)
        why = None
        step = 'construction'
        try:
            cont = sk.apply(('class', cls), [], {}, None)
            elems = [surface('s0', 4, 2), surface('s1', 3, 1)]
            for s_, _ in elems:
                sk.call(m.lookup(cls, 'add', 'methods'), [cont, s_], {})

            def rebuild(what, **kw):
                if not delta_kw:
                    kw = dict(kw, delta=False)
                sk.call(fi, [cont], dict(kw))
                v = sk.call(m.lookup(cls, 'vertices', 'getters'), [cont], {})
                f = sk.call(m.lookup(cls, 'faces', 'getters'), [cont], {})
                nv, nf = sum(c[0] for _, c in elems), sum(c[1] for _, c in elems)
                owners_v = [n_ for (s__, c) in elems for n_ in [s__._a['name']] * c[0]]
                owners_f = [n_ for (s__, c) in elems for n_ in [s__._a['name']] * c[1]]
                if not isinstance(v, list) or [x._a.get('_of') for x in v] != owners_v:
                    return '%s: the aggregate does not list the %d vertices of the surfaces once each in surface order' % (what, nv)
                if [x._a.get('id') for x in v] != list(range(nv)):
                    return '%s: the vertices of the aggregate are numbered %s, expected 0 .. %d' % (what, [x._a.get('id') for x in v], nv - 1)
                if not isinstance(f, list) or [x._a.get('_of') for x in f] != owners_f:
                    return '%s: the aggregate does not list the %d faces of the surfaces once each in surface order' % (what, nf)
                if [x._a.get('id') for x in f] != list(range(nf)):
                    return '%s: the faces of the aggregate are numbered %s, expected 0 .. %d' % (what, [x._a.get('id') for x in f], nf - 1)
                for x in f:
                    if any(vx not in v for vx in x._a['vertices']):
                        return '%s: a face refers to a vertex that is not in the aggregate' % what
                return None
            step = 'first tessellation'
            why = rebuild(step)
            if why is None:
                step = 'after adding a third surface'
                elems.append(surface('s2', 5, 3))
                sk.call(m.lookup(cls, 'add', 'methods'), [cont, elems[-1][0]], {})
                why = rebuild(step)
            if why is None:
                step = 'forced rebuild'
                why = rebuild(step, force=True)
            if why is None:
                step = 'rebuild after reset()'
                sk.call(m.lookup(cls, 'reset', 'methods'), [cont], {})
                why = rebuild(step)
        except Violation as v:
            why = '%s %s   [%s]' % (v.msg, v.where(), step)
        except Raised as ex:
            why = 'raises %s   [%s]' % (ex.exc, step)
        except Unsupported as ex:
            raise AnalysisError('%s: interpreter met an unsupported construct: %s' % (fi.key, ex))
        if why:
            bad.append(('tessellate(%s)' % ('' if delta_kw else 'delta=False'), why))
    run.ob(rule, '%s :: 4 rebuilds x (container delta pushed / delta=False)' % fi.key, not bad, 'vertices and faces of every surface once, in order, numbered without gaps after every rebuild' if not bad else
           '%s: %s   [%d of 2]' % (bad[0][0], bad[0][1], len(bad)), 'geomdl/multi.py:%d in %s' % (fi.node.lineno, fi.key))


# ====================================================================================== C12 / C15: the tessellation components do what they are asked, every time
def tt2(m, run, rule='TT2.component-tessellates-what-it-is-given-every-time'):
    """TT2: every tessellation component (tessellate.TriangularTessellate, TrimTessellate, QuadTessellate) is built by interpreting its own
    constructor, its mesh generator replaced by a recorder: tessellate(points, size_u, size_v, further keywords) hands the generator those
    points, sizes and keywords (the trim component adds its trims, its trim function and its arguments) and stores what it returns;
    a second call with other points stores the mesh of the *second* points (the components do not cache: abstract.Surface.tessellate
    decides when to call them, and a forced rebuild must rebuild); reset() empties the component, is_tessellated() tells which state it is in"""
    for cname in ('TriangularTessellate', 'TrimTessellate', 'QuadTessellate'):
        cls = ('tessellate', cname)
        if cls not in m.classes:
            continue
        sk = SK(m, dict(STD_ABSTRACTED))
        sk.construct = True
        calls = []
        why = None
        try:
            comp = sk.apply(('class', cls), [], {}, None)

            def gen(sk_, node, points, *a, **k):
                calls.append((points, a, dict(k)))
                n_ = len(calls)
                return [Bag('Vertex', id=i, _gen=n_) for i in range(4)], [Bag('Face', id=i, _gen=n_) for i in range(2)]
            comp._a['_tsl_func'] = Py(gen, 'mesh generator')
            fi = m.lookup(cls, 'tessellate', 'methods')
            get = lambda name: sk.call(m.lookup(cls, name, 'getters'), [comp], {})
            tess = lambda: sk.call(m.lookup(cls, 'is_tessellated', 'methods'), [comp], {})
            if tess():
                why = 'a new component reports a tessellation'
            P1, P2 = pts(6, 3, labelled=True), pts(6, 3, labelled=True)
            trims = []
            kw = {'size_u': 2, 'size_v': 3, 'vertex_spacing': 1}
            if cname == 'TrimTessellate':
                kw['trims'] = trims
            if why is None:
                sk.call(fi, [comp, P1], dict(kw))
                if len(calls) != 1 or calls[0][0] is not P1:
                    why = 'the first tessellate() does not hand its points to the mesh generator once'
                elif any(calls[0][2].get(k_) != v_ for k_, v_ in kw.items()):
                    why = 'the mesh generator gets the keywords %s, tessellate() was given %s' % (sorted(calls[0][2]), sorted(kw))
                elif [v._a.get('_gen') for v in get('vertices')] != [1] * 4 or [f._a.get('_gen') for f in get('faces')] != [1] * 2:
                    why = 'after tessellate() the component does not hold the vertices and faces the generator returned'
                elif not tess():
                    why = 'is_tessellated() is false after tessellate()'
            if why is None:
                sk.call(fi, [comp, P2], dict(kw))
                if len(calls) != 2 or calls[1][0] is not P2:
                    why = 'a second tessellate() with other points does not reach the mesh generator: the component keeps the mesh of the first points (a forced rebuild of a surface, or a changed vertex_spacing, has no effect)'
                elif [v._a.get('_gen') for v in get('vertices')] != [2] * 4 or [f._a.get('_gen') for f in get('faces')] != [2] * 2:
                    why = 'after the second tessellate() the component still holds the first mesh'
            if why is None:
                sk.call(m.lookup(cls, 'reset', 'methods'), [comp], {})
                if get('vertices') or get('faces') or tess():
                    why = 'reset() leaves vertices or faces behind'
        except Violation as v:
            why = '%s %s' % (v.msg, v.where())
        except Raised as ex:
            why = 'raises %s' % ex.exc
        except Unsupported as ex:
            raise AnalysisError('tessellate.%s: interpreter met an unsupported construct: %s' % (cname, ex))
        ci = m.classes[cls]
        run.ob(rule, 'tessellate.%s' % cname, why is None, 'hands points and keywords to its generator on every call, holds the latest mesh, reset() empties it' if why is None else why,
               'geomdl/tessellate.py:%d class %s' % (ci.node.lineno, cname))


# ====================================================================================== C05 / C13: the curves extracted from a surface are independent shapes
def ec2(m, run, rule='EC2.extracted-shapes-are-independent'):
    """EC2: construct.extract_curves / extract_surfaces / extract_isosurface interpreted on a real non-square B-spline surface / volume built by the
    classes' own constructors and setters (knots are order tokens): no list or dictionary reachable from one extracted shape is reachable
    from another extracted shape or from the input - so refining, inserting into or re-knotting one of them changes nobody else"""
    ab = dict(STD_ABSTRACTED)
    ab[('knotvector', 'normalize')] = Py(lambda sk, node, kv, *a, **k: [Ord(x.rank) for x in kv], 'knotvector.normalize')

    def build(sk, cname, degs, sizes):
        pdim = len(degs)
        total = 1
        for s_ in sizes:
            total *= s_
        o_ = sk.apply(('class', ('BSpline', cname)), [], {}, None)
        sfx = ['_' + 'uvw'[d] for d in range(pdim)]
        for d in range(pdim):
            sk.call(m.lookup(o_._cls, 'degree' + sfx[d], 'setters'), [o_, degs[d]], {})
        sk.call(m.lookup(o_._cls, 'set_ctrlpts', 'methods'), [o_, pts(total, 3, labelled=True)] + list(sizes), {})
        for d in range(pdim):
            p, n = degs[d], sizes[d]
            sk.call(m.lookup(o_._cls, 'knotvector' + sfx[d], 'setters'), [o_, [Ord(r) for r in [0] * (p + 1) + list(range(1, n - p)) + [n - p] * (p + 1)]], {})
        return o_

    def containers(ob):
        seen, out, todo = set(), {}, [(ob, 'self')]
        while todo:
            x, path = todo.pop()
            if id(x) in seen:
                continue
            seen.add(id(x))
            if isinstance(x, Bag):
                if x is not ob and isinstance(x._cls, tuple):
                    continue            # (helper objects - evaluators, tessellators - are not state of the shape's definition)
                for k_, v_ in x._a.items():
                    if not k_.startswith('__'):
                        todo.append((v_, path + '.' + k_))
            elif isinstance(x, list):
                out[id(x)] = path
                for i_, y in enumerate(x[:40]):
                    todo.append((y, '%s[%d]' % (path, i_)))
            elif isinstance(x, dict):
                out[id(x)] = path
                for k_, y in x.items():
                    todo.append((y, '%s[%r]' % (path, k_)))
        return out
    for fname, cname, degs, sizes in (('extract_curves', 'Surface', (2, 1), (4, 3)), ('extract_surfaces', 'Volume', (1, 2, 1), (2, 3, 2)), ('extract_isosurface', 'Volume', (1, 2, 1), (2, 3, 2))):
        key_f = 'construct.' + fname
        if key_f not in m.funcs:
            continue
        fi = m.func(key_f)
        sk = SK(m, ab)
        sk.construct = True
        why = None
        try:
            src = build(sk, cname, degs, sizes)
            out = sk.call(fi, [src], {})
            shapes = []

            def collect(x, label):
                if isinstance(x, Bag):
                    shapes.append((label, x))
                elif isinstance(x, dict):
                    for k_, v_ in x.items():
                        collect(v_, '%s[%r]' % (label, k_))
                elif isinstance(x, (list, tuple)):
                    for i_, v_ in enumerate(x):
                        collect(v_, '%s[%d]' % (label, i_))
            collect(out, 'result')
            if len(shapes) < 2:
                why = 'returns %d shapes' % len(shapes)
            else:
                owned = [('the input', containers(src))] + [(lab, containers(s_)) for lab, s_ in shapes]
                if len({id(s_) for _, s_ in shapes}) != len(shapes):
                    why = 'one and the same object is returned at two places of the result'
                for a_ in range(len(owned)):
                    for b_ in range(a_ + 1, len(owned)):
                        if why:
                            break
                        both = [i for i in owned[a_][1] if i in owned[b_][1]]
                        if both:
                            why = '`%s` of %s and `%s` of %s are one and the same list: an edit of one shape (a knot inserted, a knot vector replaced element by element, a refinement) changes the other' % (
                                owned[a_][1][both[0]].replace('self', ''), owned[a_][0], owned[b_][1][both[0]].replace('self', ''), owned[b_][0])
        except Violation as v:
            why = '%s %s' % (v.msg, v.where())
        except Raised as ex:
            why = 'raises %s' % ex.exc
        except Unsupported as ex:
            raise AnalysisError('%s: interpreter met an unsupported construct: %s' % (fi.key, ex))
        run.ob(rule, fi.key, why is None, 'the extracted shapes and the input reach disjoint lists and dictionaries' if why is None else why, 'geomdl/construct.py:%d in %s' % (fi.node.lineno, fi.key))


# ====================================================================================== a single sample of an interval without length
def ls2(m, run, rule='LS2.single-parameter-is-used-as-given'):
    """LS2: linalg.linspace interpreted with start = stop = a symbolic value and a small number of decimals (2): the result is [that value],
    exactly - evaluate_single / the vertex re-evaluation of a tessellation pass start = stop = the parameter through the evaluators'
    sampling, so the point is computed at the parameter asked for, whatever the precision of the shape"""
    from .skel import Sym
    fi = m.func('linalg.linspace')

    def make_sk():
        sk = SK(m, {})
        sk.exact = True
        sk.text = True
        return sk

    def scenario(sk):
        a = Sym('a')
        out = sk.call(fi, [a, a, 3], {'decimals': 2})
        if not isinstance(out, list) or len(out) != 1:
            return 'returns %s for start = stop' % repr(out)[:100]
        s_ = _as_sym(out[0])
        if s_ is None or not s_.same(a):
            return 'returns [%s] for start = stop = a: the parameter is altered (rounded to the decimals of the shape) before the point is evaluated' % repr(out[0])[:80]
        return None
    try:
        why = forked(make_sk, scenario, fi.key, max_paths=16)
    except Unsupported as ex:
        raise AnalysisError('%s: interpreter met an unsupported construct: %s' % (fi.key, ex))
    run.ob(rule, fi.key, why is None, 'linspace(a, a, n, decimals) is [a]' if why is None else why, 'geomdl/linalg.py:%d in %s' % (fi.node.lineno, fi.key))


# ====================================================================================== C10 / C12: rotation without inplace works on a copy
def rt5(m, run, rule='RT5.rotation-without-inplace-works-on-a-copy'):
    """RT5: operations.rotate interpreted on an abstract shape with labelled control points, for every axis, without `inplace` and with
    inplace=False: the shape passed in holds the very same control point lists with the very same coordinates afterwards, the returned
    object is another object none of whose control point lists is one of the argument's, and its coordinates are the rotated ones
    (they depend on the rotation origin); with inplace=True the object passed in is returned"""
    fi = m.func('operations.rotate')
    bad, cnt = [], 0
    for pdim in (1, 2):
        for axis in (0, 1, 2):
            for kw in ({}, {'inplace': False}):
                cnt += 1
                g = _abs_shape_for_transform(0, pdim, 3, 3)

                def clone(x):
                    c_ = Bag('rec:shape', **{k_: deepcopy_plain(v_) for k_, v_ in x._a.items() if k_ not in ('__iter__', '__deepcopy__')})
                    c_._a['__iter__'] = [c_]
                    c_._a['__deepcopy__'] = clone
                    return c_
                g._a['__deepcopy__'] = clone        # (what copy.deepcopy does to a shape: new lists, the same numbers)
                before = [(id(pt), [id(c) for c in pt]) for pt in g._a['ctrlpts']]
                before_list = id(g._a['ctrlpts'])
                sk = SK(m, dict(STD_ABSTRACTED))
                why = None
                try:
                    out = sk.call(fi, [g, DEF()], dict(kw, axis=axis))
                    after = [(id(pt), [id(c) for c in pt]) for pt in g._a['ctrlpts']]
                    if id(g._a['ctrlpts']) != before_list or after != before:
                        why = 'the control points of the shape passed in are changed'
                    elif out is g or not isinstance(out, Bag):
                        why = 'the shape passed in is what is returned'
                    else:
                        cp = out._a.get('ctrlpts')
                        mine = {id(pt) for pt in g._a['ctrlpts']} | {before_list}
                        if not isinstance(cp, list) or len(cp) != 3:
                            why = 'the result has %r control points' % (len(cp) if isinstance(cp, list) else cp)
                        elif id(cp) in mine or any(id(pt) in mine for pt in cp):
                            why = 'the result holds control point lists of the shape passed in'
                        elif not all(isinstance(v, Tok) and any(l[0] == 'start' for l in (v.dep or ())) for pt in cp for v in pt):
                            why = 'the result is not rotated (its coordinates do not depend on the rotation origin)'
                except Violation as v:
                    why = '%s %s' % (v.msg, v.where())
                except Unsupported as ex:
                    raise AnalysisError('%s: interpreter met an unsupported construct: %s' % (fi.key, ex))
                if why:
                    bad.append(('%s, axis %d, %s' % (('curve', 'surface')[pdim - 1], axis, 'inplace=False' if kw else 'no inplace keyword'), why))
    cnt += 1
    g = _abs_shape_for_transform(0, 1, 3, 3)
    try:
        if SK(m, dict(STD_ABSTRACTED)).call(fi, [g, DEF()], {'inplace': True}) is not g:
            bad.append(('inplace=True', 'the shape passed in is not what is returned'))
    except Violation as v:
        bad.append(('inplace=True', '%s %s' % (v.msg, v.where())))
    run.ob(rule, '%s :: %d cases' % (fi.key, cnt), not bad, 'argument untouched, result an independent rotated copy; the argument itself with inplace=True' if not bad else '%s: %s   [%d of %d]' % (bad[0][0], bad[0][1], len(bad), cnt),
           'geomdl/operations.py:%d in %s' % (fi.node.lineno, fi.key))
