"""AXIS: parametric-direction tags (u=0, v=1, w=2) of expressions, by vocabulary + dataflow.

Sources (API names only): attribute / keyword / parameter names with a _u/_v/_w suffix; constant subscripts on
direction-indexed collections (degree, knotvector, size, sample_size, start, stop, param, num, domain, cpsize,
_degree, _knot_vector, _control_points_size, _delta, and locals that dataflow shows to be direction-indexed).
Locals get their tags from their reaching definitions (structured approximation), loop variables from their range
bounds, tuple elements position-wise.  A tag set with more than one element means "mixed".
"""
import ast
import re
from .model import norm, walk_no_nested, params_of

AX = {'u': 0, 'v': 1, 'w': 2}
AXN = 'uvw'
SUFFIX = re.compile(r'^(?!_+$).*?_([uvw])$')
# API names of direction-indexed collections (attributes, dict keys, parameters)
DIR_ATTRS = {'_degree', '_knot_vector', '_control_points_size', '_delta', 'degree', 'knotvector', 'cpsize', 'delta',
             'sample_size', 'domain', 'range'}
DIR_KEYS = {'degree', 'knotvector', 'size', 'sample_size'}          # evaluator data dictionary
DIR_KWARGS = {'start', 'stop'}
DIR_PARAMS = {'param', 'num', 'degree', 'knotvector', 'kv', 'cpsize', 'size', 'parpos', 'args', 'span', 'spans'}


def suffix_axis(name):
    if not isinstance(name, str):
        return None
    m = SUFFIX.match(name)
    return AX[m.group(1)] if m else None


class AxisScope(object):
    def __init__(self, fn, dir_params=None, use_local_suffix=False, extra_dir_names=(), param_axis=None):
        self.fn = fn
        self.param_axis = dict(param_axis or {})
        self.params = params_of(fn)
        self.dir_params = set(dir_params) if dir_params is not None else {p for p in self.params if p in DIR_PARAMS}
        self.use_local_suffix = use_local_suffix
        self.defs = {}      # name -> [(stmt, value expr, position or None, kind)]
        self.dirnames = set(self.dir_params) | set(extra_dir_names)
        self._collect()
        self._infer_dir_locals()

    # ------------------------------------------------------------------ definitions
    def _collect(self):
        for n in walk_no_nested(self.fn):
            if isinstance(n, ast.Assign):
                for t in n.targets:
                    self._bind(t, n.value, n)
            elif isinstance(n, ast.AugAssign) and isinstance(n.target, ast.Name):
                self.defs.setdefault(n.target.id, []).append((n, n.value, None, 'aug'))
            elif isinstance(n, ast.For):
                self._bind_loop(n.target, n.iter, n)
            elif isinstance(n, (ast.ListComp, ast.GeneratorExp, ast.SetComp, ast.DictComp)):
                for g in n.generators:
                    self._bind_loop(g.target, g.iter, n)

    def _bind(self, t, value, stmt):
        if isinstance(t, ast.Name):
            self.defs.setdefault(t.id, []).append((stmt, value, None, 'assign'))
        elif isinstance(t, (ast.Tuple, ast.List)):
            if isinstance(value, (ast.Tuple, ast.List)) and len(value.elts) == len(t.elts):
                for a, b in zip(t.elts, value.elts):
                    self._bind(a, b, stmt)
            else:
                for k, a in enumerate(t.elts):
                    if isinstance(a, ast.Name):
                        self.defs.setdefault(a.id, []).append((stmt, value, k, 'unpack'))

    def _bind_loop(self, t, it, stmt):
        if isinstance(t, ast.Name):
            self.defs.setdefault(t.id, []).append((stmt, it, None, 'loop'))
        elif isinstance(t, (ast.Tuple, ast.List)):
            if isinstance(it, ast.Call) and isinstance(it.func, ast.Name) and it.func.id == 'enumerate' and len(t.elts) == 2 and it.args:
                if isinstance(t.elts[0], ast.Name):
                    self.defs.setdefault(t.elts[0].id, []).append((stmt, it.args[0], None, 'enum-index'))
                if isinstance(t.elts[1], ast.Name):
                    self.defs.setdefault(t.elts[1].id, []).append((stmt, it.args[0], None, 'loop'))
            elif isinstance(it, ast.Call) and isinstance(it.func, ast.Name) and it.func.id == 'zip':
                for a, b in zip(t.elts, it.args):
                    if isinstance(a, ast.Name):
                        self.defs.setdefault(a.id, []).append((stmt, b, None, 'loop'))
            else:
                for k, a in enumerate(t.elts):
                    if isinstance(a, ast.Name):
                        self.defs.setdefault(a.id, []).append((stmt, it, k, 'loop-unpack'))

    def _infer_dir_locals(self):
        """locals that are direction-indexed: bound to a direction-indexed API value, or filled element-wise L[idx] = f(D[idx]),
        or built as a tuple whose element k carries tag k"""
        changed = True
        rounds = 0
        while changed and rounds < 6:
            changed = False
            rounds += 1
            for name, ds in self.defs.items():
                if name in self.dirnames:
                    continue
                for stmt, val, pos, kind in ds:
                    if kind != 'assign' or val is None:
                        continue
                    if self.is_dir_expr(val):
                        self.dirnames.add(name)
                        changed = True
                        break
                    if isinstance(val, (ast.Tuple, ast.List)) and len(val.elts) in (2, 3):
                        tags = [self.tag(x, stmt) for x in val.elts]
                        if all(t == {k} for k, t in enumerate(tags)):
                            self.dirnames.add(name)
                            changed = True
                            break
            # element-wise fill:  L[idx] = ... D[idx] ...
            for n in walk_no_nested(self.fn):
                if isinstance(n, ast.Assign) and len(n.targets) == 1 and isinstance(n.targets[0], ast.Subscript) \
                        and isinstance(n.targets[0].value, ast.Name) and isinstance(n.targets[0].slice, ast.Name):
                    L, idx = n.targets[0].value.id, n.targets[0].slice.id
                    if L in self.dirnames:
                        continue
                    for x in ast.walk(n.value):
                        if isinstance(x, ast.Subscript) and isinstance(x.slice, ast.Name) and x.slice.id == idx and self.is_dir_expr(x.value):
                            self.dirnames.add(L)
                            changed = True
                            break

    def is_dir_expr(self, e):
        """expression denoting a direction-indexed collection"""
        if isinstance(e, ast.Name):
            return e.id in self.dirnames
        if isinstance(e, ast.Attribute):
            return e.attr in DIR_ATTRS
        if isinstance(e, ast.Subscript) and isinstance(e.slice, ast.Constant) and isinstance(e.slice.value, str):
            return e.slice.value in DIR_KEYS
        if isinstance(e, ast.Call) and isinstance(e.func, ast.Attribute) and e.func.attr == 'get' and e.args \
                and isinstance(e.args[0], ast.Constant) and e.args[0].value in DIR_KWARGS:
            return True
        return False

    # ------------------------------------------------------------------ reaching definitions (structured approximation)
    @staticmethod
    def _block_chain(node):
        """list of (parent, field) from node up to the function: identifies the statement list containing the node"""
        chain = []
        n = node
        while getattr(n, '_sa_parent', None) is not None:
            p = n._sa_parent
            field = None
            for f in ('body', 'orelse', 'finalbody', 'handlers'):
                if isinstance(getattr(p, f, None), list) and any(x is n for x in getattr(p, f)):
                    field = f
            chain.append((p, field))
            n = p
        return chain

    def reaching(self, name, at):
        ds = self.defs.get(name, [])
        if not ds:
            return []
        at_stmt = at
        while at_stmt is not None and not isinstance(at_stmt, ast.stmt):
            at_stmt = getattr(at_stmt, '_sa_parent', None)
        if at_stmt is None:
            return ds
        at_chain = self._block_chain(at_stmt)
        at_blocks = [(id(p), f) for p, f in at_chain]
        pos = (at.lineno, getattr(at, 'col_offset', 0)) if hasattr(at, 'lineno') else (at_stmt.lineno, 0)
        before, loops = [], []
        for d in ds:
            stmt = d[0]
            if d[3] in ('loop', 'enum-index', 'loop-unpack'):
                # a loop/comprehension variable reaches uses inside its own body only
                inside = False
                p = at
                while p is not None:
                    if p is stmt:
                        inside = True
                        break
                    p = getattr(p, '_sa_parent', None)
                if inside:
                    loops.append(d)
                continue
            dpos = (stmt.lineno, stmt.col_offset)
            if dpos < (at_stmt.lineno, at_stmt.col_offset) or (stmt is at_stmt and d[3] == 'aug'):
                before.append(d)
        if loops:
            # innermost enclosing binder wins
            return [max(loops, key=lambda d: (d[0].lineno, d[0].col_offset))]
        out = []
        for d in sorted(before, key=lambda d: (d[0].lineno, d[0].col_offset), reverse=True):
            stmt = d[0]
            chain = self._block_chain(stmt)
            blk = (id(chain[0][0]), chain[0][1]) if chain else None
            # sibling branch of a conditional that does not contain the use: cannot reach
            excluded = False
            for (p, f) in chain:
                for (q, g) in at_chain:
                    if p is q and f != g and isinstance(p, (ast.If, ast.Try)) and f in ('body', 'orelse') and g in ('body', 'orelse'):
                        excluded = True
            if excluded:
                continue
            out.append(d)
            if blk in at_blocks and d[3] != 'aug':
                break       # definitely executed before the use: earlier definitions are killed
        return out

    # ------------------------------------------------------------------ tags
    def tag(self, e, at=None, depth=0):
        if e is None or depth > 10:
            return set()
        at = at if at is not None else e
        if isinstance(e, ast.Constant):
            return set()
        if isinstance(e, ast.Attribute):
            a = suffix_axis(e.attr)
            if a is not None:
                return {a}
            return set()
        if isinstance(e, ast.Subscript):
            b = e.value
            if self.is_dir_expr(b):
                if isinstance(e.slice, ast.Constant) and isinstance(e.slice.value, int) and not isinstance(e.slice.value, bool):
                    return {e.slice.value} if e.slice.value in (0, 1, 2) else set()
                if isinstance(e.slice, ast.Name):
                    return {'sym:' + e.slice.id}
                return set()
            if isinstance(e.slice, ast.Slice):
                # slice bounds are positions along the sliced collection's own direction
                out = self.tag(b, at, depth + 1)
                for bound in (e.slice.lower, e.slice.upper):
                    if bound is not None:
                        out = out | self.tag(bound, at, depth + 1)
                return out
            # element of something tagged (spans[0][i] -> tag of spans[0]); index does not contribute its own axis
            return self.tag(b, at, depth + 1)
        if isinstance(e, ast.Name):
            if e.id in self.param_axis and not self.defs.get(e.id):
                return {self.param_axis[e.id]}
            if e.id in self.params and suffix_axis(e.id) is not None:
                return {suffix_axis(e.id)}      # a parameter keeps its API meaning when it is re-bound (e.g. defaulted) locally
            if e.id in self.params and not self.defs.get(e.id):
                return set()
            if self.use_local_suffix:
                a = suffix_axis(e.id)
                if a is not None:
                    return {a}
            out = set()
            rds = self.reaching(e.id, at)
            if not rds and e.id in self.params:
                a = suffix_axis(e.id)
                return {a} if a is not None else set()
            for stmt, val, pos, kind in rds:
                if val is None or val is e:
                    continue
                if kind in ('loop', 'loop-unpack'):
                    out |= self._iter_tag(val, stmt, depth + 1)
                elif kind == 'enum-index':
                    out |= self._iter_tag(val, stmt, depth + 1)
                elif kind == 'unpack':
                    out |= self._unpack_tag(val, pos, stmt, depth + 1)
                else:
                    out |= self.tag(val, stmt if kind != 'aug' else val, depth + 1)
            return out
        if isinstance(e, ast.Call):
            f = e.func
            fname = f.id if isinstance(f, ast.Name) else (f.attr if isinstance(f, ast.Attribute) else None)
            if fname in ('range',):
                return self.tag(e.args[-1] if len(e.args) < 3 else e.args[1], at, depth + 1) | (
                    self.tag(e.args[0], at, depth + 1) if len(e.args) >= 2 else set())
            out = set()
            for a in e.args:
                out |= self.tag(a.value if isinstance(a, ast.Starred) else a, at, depth + 1)
            for k in e.keywords:
                out |= self.tag(k.value, at, depth + 1)
            if isinstance(f, ast.Attribute) and fname not in ('get', 'format'):
                out |= self.tag(f.value, at, depth + 1) if not isinstance(f.value, ast.Name) or f.value.id not in ('helpers', 'linalg', 'math', 'utilities', 'knotvector', 'compatibility', 'copy') else set()
            return out
        if isinstance(e, (ast.ListComp, ast.GeneratorExp)):
            if isinstance(e.elt, ast.Constant) or (isinstance(e.elt, ast.List) and not e.elt.elts):
                # placeholder list: its direction is the direction of its length
                return self._iter_tag(e.generators[0].iter, e, depth + 1)
            return self.tag(e.elt, e.elt, depth + 1)
        out = set()
        for c in ast.iter_child_nodes(e):
            if isinstance(c, ast.expr):
                out |= self.tag(c, at, depth + 1)
        return out

    def _iter_tag(self, it, stmt, depth):
        """axis of a loop variable = axis of the extent it ranges over"""
        if isinstance(it, ast.Call) and isinstance(it.func, ast.Name) and it.func.id == 'range' and it.args:
            hi = it.args[-1] if len(it.args) < 3 else it.args[1]
            t = self.tag(hi, stmt, depth)
            if len(it.args) >= 2:
                t = t | self.tag(it.args[0], stmt, depth)
            return t
        if isinstance(it, ast.Call) and isinstance(it.func, ast.Name) and it.func.id in ('len', 'enumerate', 'reversed', 'list') and it.args:
            return self._iter_tag(it.args[0], stmt, depth)
        return self.tag(it, stmt, depth)

    def _unpack_tag(self, val, pos, stmt, depth):
        """tag of element `pos` of a tuple-valued expression (call results: position-wise tags of the callee's returns are
        supplied by callers through ret_tags)"""
        if isinstance(val, ast.Call):
            rt = getattr(self, 'ret_tags', {}).get(norm(val.func).split('.')[-1])
            if rt is None and getattr(self, 'ret_tag_source', None) is not None:
                rt = self.ret_tag_source(norm(val.func).split('.')[-1])
            if rt and pos < len(rt):
                return set(rt[pos])
            if rt is None:
                # result of a per-direction helper: carries the direction of its arguments
                return self.tag(val, stmt, depth)
            return set()
        if isinstance(val, ast.Name) or isinstance(val, ast.Attribute) or isinstance(val, ast.Subscript):
            if self.is_dir_expr(val):
                return {pos} if pos in (0, 1, 2) else set()
        return set()

    def api_origin(self, e, depth=0):
        """API name an expression ultimately denotes: attribute name, dictionary key, keyword of kwargs.get, or parameter name;
        locals are followed through their single definition (their own names never matter)"""
        if depth > 6 or e is None:
            return None
        if isinstance(e, ast.Attribute):
            return e.attr
        if isinstance(e, ast.Subscript):
            if isinstance(e.slice, ast.Constant) and isinstance(e.slice.value, str):
                return e.slice.value
            return self.api_origin(e.value, depth + 1)
        if isinstance(e, ast.Call):
            if isinstance(e.func, ast.Attribute) and e.func.attr in ('get', 'pop') and e.args and isinstance(e.args[0], ast.Constant):
                return e.args[0].value
            if isinstance(e.func, ast.Name) and e.func.id in ('int', 'float', 'list', 'tuple', 'len') and e.args:
                return self.api_origin(e.args[0], depth + 1)
            return None
        if isinstance(e, ast.IfExp):
            a, b = self.api_origin(e.body, depth + 1), self.api_origin(e.orelse, depth + 1)
            return a if a == b else None
        if isinstance(e, ast.Name):
            vals = [d[1] for d in self.defs.get(e.id, []) if d[3] in ('assign',) and d[1] is not None]
            if not vals and e.id in self.params:
                return e.id
            origins = {self.api_origin(v, depth + 1) for v in vals}
            origins.discard(None)
            if len(origins) == 1:
                return origins.pop()
            return None
        return None

    def int_tags(self, e, at=None):
        return {t for t in self.tag(e, at) if isinstance(t, int)}


def fmt(tags):
    return '{' + ','.join(AXN[t] if isinstance(t, int) else str(t) for t in sorted(tags, key=str)) + '}'
